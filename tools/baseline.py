#!/venv/bin/python
"""Runs the repository's pinned test suite (guard off) and compares with /root/.vp/BASELINE.json stable_pass."""
import json, os, subprocess, sys, tempfile, xml.etree.ElementTree as ET
base = json.load(open("/root/.vp/BASELINE.json"))
out = tempfile.mktemp(suffix=".xml", dir="/dev/shm")
env = dict(os.environ); env.pop("GRAPHIQ_VERIF", None)
r = subprocess.run("cd /repo && /venv/bin/python -m pytest -ra -q -p no:cacheprovider --timeout=900 --continue-on-collection-errors --junitxml=%s" % out, shell=True, env=env, capture_output=True, text=True)
passed = set()
for tc in ET.parse(out).getroot().iter("testcase"):
    if not any(ch.tag in ("failure", "error", "skipped") for ch in tc):
        passed.add("%s::%s" % (tc.get("classname"), tc.get("name")))
os.remove(out)
want = set(base["stable_pass"])
missing = sorted(want - passed)
print("baseline stable_pass: %d, passing now: %d, missing: %d" % (len(want), len(want & passed), len(missing)))
for m in missing[:40]: print("  MISSING", m)
sys.exit(1 if missing else 0)
