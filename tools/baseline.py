#!/venv/bin/python
"""Runs the repository's pinned test suite (guard off) and compares with /root/.vp/BASELINE.json stable_pass."""
import json, os, subprocess, sys, tempfile, xml.etree.ElementTree as ET
base = json.load(open("/root/.vp/BASELINE.json"))
out = tempfile.mktemp(suffix=".xml", dir="/dev/shm")
env = dict(os.environ); env.pop("GRAPHIQ_VERIF", None)
r = subprocess.run("cd /repo && /venv/bin/python -m pytest -ra -q -p no:cacheprovider --timeout=900 --continue-on-collection-errors --junitxml=%s" % out, shell=True, env=env, capture_output=True, text=True)
passed = set()
why = {}
for tc in ET.parse(out).getroot().iter("testcase"):
    key = "%s::%s" % (tc.get("classname"), tc.get("name"))
    bad = [ch for ch in tc if ch.tag in ("failure", "error", "skipped")]
    if not bad:
        passed.add(key)
    else:
        why[key] = "%s %.1fs %s" % (bad[0].tag, float(tc.get("time") or 0), (bad[0].get("message") or "")[:160].replace("\n", " "))
os.remove(out)
want = set(base["stable_pass"])
missing = sorted(want - passed)
print("baseline stable_pass: %d, passing now: %d, missing: %d" % (len(want), len(want & passed), len(missing)))
for m in missing[:40]: print("  MISSING", m, "|", why.get(m, "not run"))
sys.exit(1 if missing else 0)
