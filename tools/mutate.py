#!/venv/bin/python
"""Sensitivity suite: apply each textual mutant of mutants/<ID>.json to a scratch copy of /repo (under /dev/shm),
run the property's quick check against it (VERIF_REPO), expect exit 1, delete the copy.
usage: tools/mutate.py C01 [mutant-name ...] [--tier quick]"""
import json, os, shutil, subprocess, sys, tempfile, time

HOME = os.path.dirname(os.path.dirname(os.path.abspath(__file__)))

def main():
    args = [a for a in sys.argv[1:] if not a.startswith("--")]
    pid = args[0].upper()
    only = set(args[1:])
    muts = json.load(open(os.path.join(HOME, "mutants", pid + ".json")))
    res = []
    for m in muts:
        if only and m["name"] not in only:
            continue
        d = tempfile.mkdtemp(prefix="mut_", dir="/dev/shm")
        try:
            repo = os.path.join(d, "repo")
            shutil.copytree("/repo", repo, ignore=shutil.ignore_patterns(".git", "__pycache__", "docs", "*.png", "tests"))
            edits = [(m["file"], m["find"], m["replace"])] + [(e["file"], e["find"], e["replace"]) for e in m.get("more", [])]
            stale = False
            for f_, find_, repl_ in edits:
                p = os.path.join(repo, f_)
                s = open(p).read()
                if s.count(find_) < 1:
                    stale = True; break
                open(p, "w").write(s.replace(find_, repl_, 1))
            if stale:
                res.append((m["name"], "STALE (pattern not found)")); print(res[-1][0], res[-1][1], flush=True); continue
            env = dict(os.environ, VERIF_REPO=repo, VERIF_HOME=os.path.join(d, "home"))
            # evidence/replays of mutant runs go to a scratch home so that /verif/evidence is not touched
            os.makedirs(env["VERIF_HOME"])
            for f in ("known_findings.json",):
                shutil.copy(os.path.join(HOME, f), env["VERIF_HOME"])
            if os.path.isdir(os.path.join(HOME, "findings")):
                shutil.copytree(os.path.join(HOME, "findings"), os.path.join(env["VERIF_HOME"], "findings"))
            t0 = time.time()
            r = subprocess.run([os.path.join(HOME, "check"), pid, "--tier", "quick"], env=env, capture_output=True, text=True)
            viol = [l for l in r.stdout.splitlines() if l.startswith("VIOLATION")]
            buckets = [l.strip() for l in r.stdout.splitlines() if l.strip().startswith("bucket=")]
            status = "KILLED" if r.returncode == 1 and viol else ("SURVIVED" if r.returncode == 0 else "ERROR rc=%d %s" % (r.returncode, r.stderr[-300:]))
            res.append((m["name"], "%s %.0fs %s" % (status, time.time() - t0, buckets[:2])))
        finally:
            shutil.rmtree(d, ignore_errors=True)
        print(res[-1][0], res[-1][1], flush=True)
    surv = [r for r in res if not r[1].startswith("KILLED")]
    print("mutants: %d, killed: %d" % (len(res), len(res) - len(surv)))
    return 1 if surv else 0

sys.exit(main())
