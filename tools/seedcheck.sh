#!/bin/bash
# usage: tools/seedcheck.sh <seed-dir under /verif/seeded> <check id> [more check ids]
# Copies /repo's working tree to a scratch dir under /dev/shm, applies the seeded patch there, runs the demo on the clean
# and on the patched copy, runs the named checks (TIER=quick|thorough) against the patched copy via VERIF_REPO, deletes it.
# (Equivalent to `git -C /repo apply`, run, `git -C /repo checkout -- .`, without disturbing other work on /repo.)
D="$1"; shift
cd /verif || exit 2
S=$(mktemp -d /dev/shm/seedrepo.XXXX)
git -C /repo worktree add -q --detach $S/repo HEAD || exit 2
echo "== demo on clean tree"; (cd $S/repo && PYTHONPATH=$S/repo MPLBACKEND=Agg timeout 600 /venv/bin/python "/verif/$D/demo.py" >/dev/null 2>&1); echo "demo clean rc=$?"
git -C $S/repo apply --3way "/verif/$D/patch.diff" 2>/dev/null || git -C $S/repo apply "/verif/$D/patch.diff" || { echo "PATCH DOES NOT APPLY"; git -C /repo worktree remove --force $S/repo; rm -rf $S; exit 2; }
echo "== demo on patched tree"; (cd $S/repo && PYTHONPATH=$S/repo MPLBACKEND=Agg timeout 600 /venv/bin/python "/verif/$D/demo.py" >/dev/null 2>&1); echo "demo patched rc=$?"
H=$S/home; mkdir -p $H; cp known_findings.json $H/; cp -r findings $H/
for c in "$@"; do
  echo "== check $c"; VERIF_REPO=$S/repo VERIF_HOME=$H ./check $c --tier ${TIER:-quick} 2>/dev/null | grep -E "VIOLATION|bucket=|SUMMARY" | head -8; echo "check $c rc=${PIPESTATUS[0]}"
done
git -C /repo worktree remove --force $S/repo; rm -rf $S
