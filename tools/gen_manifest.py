#!/venv/bin/python
"""Regenerates MANIFEST.json from the property modules that exist (vf/props/cNN.py) + tools/manifest_meta.json."""
import json, os, subprocess
HOME = os.path.dirname(os.path.dirname(os.path.abspath(__file__)))
props = [json.loads(l) for l in open(os.path.join(HOME, "properties.jsonl"))]
meta = json.load(open(os.path.join(HOME, "tools", "manifest_meta.json")))
hook_commits = meta["hook_commits"]
checks, na = [], []
for p in props:
    pid = p["id"]
    if os.path.exists(os.path.join(HOME, "vf", "props", pid.lower() + ".py")) and pid in meta["checks"]:
        m = meta["checks"][pid]
        checks.append({
            "property_id": pid,
            "quick_cmd": "./check %s --tier quick" % pid,
            "thorough_cmd": "./check %s --tier thorough" % pid,
            "evidence_file": "evidence/%s.json" % pid,
            "replay_cmd_template": "./check %s --replay {path}" % pid,
            "engine": m.get("engine", "hypothesis"),
            "level_claimed": {"category": "exploration", "text": m["text"], "design_ref": "DESIGN.md section 5, " + pid},
            "level_note": m["note"],
            "technique": m["technique"],
        })
    else:
        na.append({"property_id": pid, "reason": meta.get("na", {}).get(pid, "check not built yet in this session (planned in DESIGN.md section 5); not claimed")})
man = {
    "version": 1,
    "setup_cmd": "./check setup",
    "hooks": {
        "guard": "GRAPHIQ_VERIF",
        "enable": "checks import graphiq from /repo's working tree with GRAPHIQ_VERIF=1 in the environment (set by ./check); a callback registered on graphiq.backends.compiler_base.verif_callback then receives every compiled operation and the classical record",
        "baseline_off_cmd": "cd /repo && env -u GRAPHIQ_VERIF /venv/bin/python -m pytest -ra -q -p no:cacheprovider --timeout=900 --continue-on-collection-errors",
        "source_commits": hook_commits,
        "add_only": True,
    },
    "engines": [
        {"name": "vf", "path": "vf/", "serves_properties": [c["property_id"] for c in checks],
         "kind_free_text": "sharded Hypothesis 6.168 driver (16 processes, seeds derived from VERIF_SEED), bounded-exhaustive enumeration for finite sub-domains, bucketed collect-then-shrink, replay files = plain case descriptors; reference models in vf/ref import nothing from graphiq"}
    ],
    "checks": checks,
    "not_applicable": na,
    "notes": meta["notes"],
}
json.dump(man, open(os.path.join(HOME, "MANIFEST.json"), "w"), indent=1)
print("checks:", [c["property_id"] for c in checks], "not claimed:", [n["property_id"] for n in na])
