#!/bin/bash
# usage: tools/seedall.sh  -- runs tools/seedcheck.sh for every seed under seeded/ against the check(s) named in its meta.json
# ("caught_by") and writes seeded/results.tsv (seed, check, exit code of the check on the patched tree; 1 = caught)
# optional argument: a glob under seeded/ (default *), e.g. tools/seedall.sh '*-[f-j]' ; results are appended for a glob run
cd /verif || exit 2
PAT="${1:-*}"
[ "$PAT" = "*" ] && : > seeded/results.tsv
for d in seeded/$PAT/; do
  s=$(basename $d)
  checks=$(/venv/bin/python -c "import json;print(' '.join(json.load(open('$d/meta.json')).get('caught_by',['${s%%-*}'])))")
  out=$(tools/seedcheck.sh seeded/$s $checks 2>&1)
  demo_clean=$(echo "$out" | grep "demo clean rc" | sed 's/.*rc=//'); demo_patched=$(echo "$out" | grep "demo patched rc" | sed 's/.*rc=//')
  echo "$out" | grep "^check " | while read _ c rc; do printf "%s\t%s\t%s\tdemo_clean=%s\tdemo_patched=%s\n" "$s" "$c" "${rc#rc=}" "$demo_clean" "$demo_patched" >> seeded/results.tsv; done
done
