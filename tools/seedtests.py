#!/venv/bin/python
"""usage: tools/seedtests.py seeded/<id>  -- applies the patch in a scratch worktree of /repo (HEAD) under /tmp, runs the
repository test-suite there (xdist -n 6) and compares with BASELINE stable_pass; removes the worktree."""
import json, os, subprocess, sys, tempfile, xml.etree.ElementTree as ET, shutil
d = os.path.abspath(sys.argv[1])
base = json.load(open("/root/.vp/BASELINE.json"))
wt = tempfile.mkdtemp(prefix="seedtest_", dir="/tmp")
os.rmdir(wt)
subprocess.run(["git", "-C", "/repo", "worktree", "add", "-q", "--detach", wt, "HEAD"], check=True)
try:
    r = subprocess.run(["git", "-C", wt, "apply", "--3way", os.path.join(d, "patch.diff")], capture_output=True, text=True)
    if r.returncode != 0:
        print("PATCH DOES NOT APPLY", r.stderr[-300:]); sys.exit(2)
    out = wt + ".xml"
    env = dict(os.environ); env.pop("GRAPHIQ_VERIF", None); env["MPLBACKEND"] = "Agg"
    subprocess.run("cd %s && /venv/bin/python -m pytest -q -p no:cacheprovider --timeout=900 --continue-on-collection-errors -n 6 --junitxml=%s" % (wt, out),
                   shell=True, env=env, capture_output=True, text=True)
    passed = set()
    for tc in ET.parse(out).getroot().iter("testcase"):
        if not any(ch.tag in ("failure", "error", "skipped") for ch in tc):
            passed.add("%s::%s" % (tc.get("classname"), tc.get("name")))
    os.remove(out)
    missing = sorted(set(base["stable_pass"]) - passed)
    # three plotting-related tests are flaky under xdist only; re-run them serially
    if missing:
        ids = [m.replace(".", "/", m.split("::")[0].count(".")).replace("::", ".py::", 1) for m in missing]
        r2 = subprocess.run("cd %s && /venv/bin/python -m pytest -q -p no:cacheprovider %s" % (wt, " ".join(ids)), shell=True, env=env, capture_output=True, text=True)
        if r2.returncode == 0:
            missing = []
        else:
            print(r2.stdout[-1500:])
    res = {"stable_pass_expected": len(base["stable_pass"]), "missing_with_patch": missing}
    print(json.dumps(res))
    json.dump(res, open(os.path.join(d, "tests_with_patch.json"), "w"), indent=1)
finally:
    subprocess.run(["git", "-C", "/repo", "worktree", "remove", "--force", wt])
    shutil.rmtree(wt, ignore_errors=True)
