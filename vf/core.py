"""Shared vocabulary of the checks: violations, bucket keys, per-case info, guarded calls."""
import hashlib
import json
import os
import sys
import traceback

REPO = os.path.realpath(os.environ.get("VERIF_REPO", "/repo"))
HOME = os.environ.get("VERIF_HOME", os.path.dirname(os.path.dirname(os.path.abspath(__file__))))


class Violation(Exception):
    """The property is violated on the current case.

    key = (subcheck, kind, site, input_class): one root cause = one bucket.  Exception *messages*
    never enter the key (graphiq messages embed input data)."""

    def __init__(self, subcheck, kind, site, input_class="plain", detail=""):
        self.key = (str(subcheck), str(kind), str(site), str(input_class))
        self.detail = str(detail)[:1500]
        super().__init__("%s | %s" % ("/".join(self.key), self.detail))

    def __reduce__(self):
        return (Violation, (*self.key, self.detail))


class CaseTimeout(BaseException):
    """Raised by the per-case watchdog.  BaseException so library code cannot swallow it."""


class Skip(Exception):
    """Case rejected by a documented precondition (counted, never a pass or a violation)."""


class Info(dict):
    """Returned by check_case: {'nontrivial': bool, 'classes': [str,...], optional 'note'}"""

    def __init__(self, nontrivial=False, classes=(), **kw):
        super().__init__(nontrivial=bool(nontrivial), classes=list(classes), **kw)


def repo_site(exc):
    """innermost frame of the traceback that lies in the repository under test: 'file.py:function'"""
    site = None
    for fs in traceback.extract_tb(exc.__traceback__):
        fn = os.path.realpath(fs.filename)
        if fn.startswith(REPO + os.sep):
            site = "%s:%s" % (os.path.basename(fn), fs.name)
    if site is None:
        fs = traceback.extract_tb(exc.__traceback__)[-1]
        site = "ext:%s:%s" % (os.path.basename(fs.filename), fs.name)
    return site


def guarded(subcheck, input_class, fn, *args, allow=(), **kwargs):
    """Call library code; an exception escaping it is a violation of kind exception:<Type> keyed by
    the innermost repository frame.  Exceptions listed in `allow` are documented rejections and are
    re-raised for the caller to handle."""
    try:
        return fn(*args, **kwargs)
    except allow:
        raise
    except (Violation, Skip):
        raise
    except RecursionError as e:
        raise Violation(subcheck, "exception:RecursionError", repo_site(e), input_class, "recursion")
    except MemoryError:
        raise CaseTimeout("memory")
    except Exception as e:  # noqa
        raise Violation(
            subcheck,
            "exception:" + type(e).__name__,
            repo_site(e),
            input_class,
            "%s: %s" % (type(e).__name__, str(e)[:400]),
        )


def canon(desc):
    return json.dumps(desc, sort_keys=True, separators=(",", ":"), default=_default)


def _default(o):
    try:
        import numpy as np

        if isinstance(o, np.integer):
            return int(o)
        if isinstance(o, np.floating):
            return float(o)
        if isinstance(o, np.ndarray):
            return o.tolist()
    except Exception:
        pass
    if isinstance(o, (set, frozenset)):
        return sorted(o)
    if isinstance(o, tuple):
        return list(o)
    return repr(o)


def digest(desc):
    return int.from_bytes(hashlib.sha1(canon(desc).encode()).digest()[:8], "big")


def jsonable(desc):
    return json.loads(canon(desc))


def eprint(*a):
    print(*a, file=sys.stderr, flush=True)
