"""C14 - exporting a circuit and importing it back yields the same circuit."""
import json

import numpy as np
from hypothesis import strategies as st

from ..core import Info, Violation, guarded
from ..engine import Sub
from ..gen import circuits as gc
from ..ref import qasm2
from ..ref import statevec as sv

ID = "C14"
RULE = (
    "circuits over the operations the exporters accept (I,H,P,Pdag,X,Y,Z, wrappers, CNOT, CZ, Z-measurement, classical "
    "CNOT/CZ, measure-CNOT-reset) on up to 12 registers per type (two-digit indices); complete enumeration of every ordered "
    "pair of operation kinds adjacent on the same and on different registers (the importer recognises multi-line idioms by "
    "look-ahead). Round trips through openQASM and JSON (also via json.dumps/loads); the openQASM text is executed by an "
    "independent openQASM 2.0 interpreter with standard semantics. Non-trivial = circuit with a wrapper of length >= 2 and a "
    "multi-line operation followed by another multi-line operation. Distinct = SHA-1."
)
ASSUMPTIONS = ["vf/ref/qasm2.py reads the emitted subset with standard openQASM 2.0 semantics (gate bodies top to bottom, U(theta,phi,lambda), CX, "
               "measure, reset, if(c==k)); cross-examined against qiskit.qasm2 in the self-test when qiskit imports",
               "equality of circuits = same register counts and, per quantum register, the same sequence of operations after expanding "
               "wrappers and dropping identities"]
REQUIRED_CLASSES = {"roundtrip": ["wrapper_len>=2", "multi_then_multi", "reg>=10", "phase_dagger", "identity_only_wrapper", "photon_one_qubit", "mcr_reg>=10",
                                 "exported_after:unwrap", "exported_after:group", "exported_after:rmid", "exported_after:copy", "exported_after:replace"]}


def norm_wires(desc):
    """per quantum register: expanded, identity-free operation list"""
    w = gc.wires(desc, expanded=True)
    return {"%s%d" % k: [d for d in v if d[0] != "I"] for k, v in w.items() if k[0] != "c"}


def circ_desc(circ):
    ops_ = [x for x in (gc.name_of(o) for o in circ.sequence()) if x is not None]
    return {"ne": circ.n_emitters, "np": circ.n_photons, "nc": circ.n_classical, "ops": ops_}


def classes(desc):
    cl = gc.classes_of(desc)
    ops_ = desc["ops"]
    multi = [d[0] in gc.CC for d in ops_]
    if any(a and b for a, b in zip(multi, multi[1:])):
        cl.append("multi_then_multi")
    if any(r >= 10 for d in ops_ for t, r in gc.qregs(d)) or any(c >= 10 for d in ops_ for c in gc.cregs(d)):
        cl.append("reg>=10")
    if any(d[0] == "Pdag" or (d[0] == "W" and "Pdag" in d[3]) for d in ops_):
        cl.append("phase_dagger")
    if any(d[0] == "W" and set(d[3]) == {"I"} for d in ops_):
        cl.append("identity_only_wrapper")
    if any(d[0] in gc.ONE + ["W"] and d[1] == "p" for d in ops_):
        cl.append("photon_one_qubit")
    if any(d[0] == "MCR" and d[2] >= 10 for d in ops_):
        cl.append("mcr_reg>=10")
    return cl


def input_class(desc):
    cl = classes(desc)
    for k in ("phase_dagger", "identity_only_wrapper"):
        if k in cl:
            return k
    if any(gc.measuring(d) for d in desc["ops"]):
        return "measuring"
    return "plain"


def compiled(sub, icls, circ, det):
    from graphiq.backends.stabilizer.compiler import StabilizerCompiler

    comp = StabilizerCompiler()
    comp.measurement_determinism = det
    return guarded(sub, icls, comp.compile, circ)


def same_circuit(sub, what, icls, desc, circ2):
    d2 = circ_desc(circ2)
    if (d2["ne"], d2["np"], d2["nc"]) != (desc["ne"], desc["np"], desc["nc"]):
        raise Violation(sub, "registers", what, icls, "registers e/p/c %s, original %s" % (
            (d2["ne"], d2["np"], d2["nc"]), (desc["ne"], desc["np"], desc["nc"])))
    w1, w2 = norm_wires(desc), norm_wires(d2)
    if w1 != w2:
        k = [k for k in w1 if w1[k] != w2.get(k)][0]
        raise Violation(sub, "operations", what, icls, "wire %s: imported %s, original %s" % (k, w2.get(k), w1[k]))


def check(case, sub="roundtrip"):
    from graphiq.circuit.circuit_dag import CircuitDAG

    desc = case["circ"]
    icls = input_class(desc)
    cl = classes(desc)
    circ, objs = gc.build(desc, return_ops=True)
    n = desc["ne"] + desc["np"]
    if "replace" in case.get("pre", []):
        # one plain one-qubit gate replaced on its node by a gate kind that may not occur anywhere else in the circuit
        idx = [i for i, d in enumerate(desc["ops"]) if d[0] in ("H", "P", "X", "Y", "Z", "Pdag")]
        if idx:
            i = idx[len(desc["ops"]) % len(idx)]
            nid = [x for x in circ.dag.nodes if circ.dag.nodes[x].get("op") is objs[i]]
            if len(nid) == 1:
                d = desc["ops"][i]
                nd = [{"H": "Pdag", "P": "Y", "X": "Pdag", "Z": "Y", "Y": "P", "Pdag": "H"}[d[0]], d[1], d[2]]
                guarded(sub, icls, circ.replace_op, nid[0], gc.make_op(nd))
                desc = dict(desc, ops=[list(x) for x in desc["ops"][:i]] + [nd] + [list(x) for x in desc["ops"][i + 1:]])
                cl.append("exported_after:replace")
    # exporting a circuit that was rewritten in place (or is a copy) must work just as well: the identity-free expanded
    # sequence on every register is unchanged by these rewrites
    for rw in case.get("pre", []):
        if rw == "replace":
            continue
        if rw == "copy":
            circ = guarded(sub, icls, circ.copy)
        else:
            guarded(sub, icls, {"unwrap": circ.unwrap_nodes, "group": circ.group_one_qubit_gates, "rmid": circ.remove_identity}[rw])
        cl.append("exported_after:" + rw)
    # (4) determinism
    q1 = guarded(sub, icls, circ.to_openqasm)
    q2 = guarded(sub, icls, circ.to_openqasm)
    q3 = guarded(sub, icls, circ.copy().to_openqasm)
    if not (q1 == q2 == q3):
        raise Violation(sub, "export-nondeterministic", "to_openqasm", icls, "two exports differ")
    j1 = guarded(sub, icls, circ.to_json)
    j2 = guarded(sub, icls, circ.copy().to_json)
    try:
        s1, s2 = json.dumps(j1, sort_keys=True), json.dumps(j2, sort_keys=True)
    except TypeError as e:
        raise Violation(sub, "json-not-serialisable", "to_json", icls, str(e)[:200])
    if s1 != s2:
        raise Violation(sub, "export-nondeterministic", "to_json", icls, "two exports differ")
    # (1) openQASM round trip
    c2 = guarded(sub, icls, CircuitDAG.from_openqasm, q1)
    same_circuit(sub, "from_openqasm", icls, desc, c2)
    # the first import result edited in place, the same text imported again: the second import is the text's circuit
    if c2.n_emitters + c2.n_photons > 0:
        import graphiq.circuit.ops as ops_

        guarded(sub, icls, c2.add, ops_.Hadamard(register=0, reg_type="e" if c2.n_emitters else "p"))
        c2b = guarded(sub, icls, CircuitDAG.from_openqasm, q1)
        same_circuit(sub, "from_openqasm:second_import", icls, desc, c2b)
        c2 = c2b
    # (2) JSON round trip, directly and through text
    c3 = guarded(sub, icls, CircuitDAG.from_json, j1)
    same_circuit(sub, "from_json", icls, desc, c3)
    c4 = guarded(sub, icls, CircuitDAG.from_json, json.loads(s1))
    same_circuit(sub, "from_json(text)", icls, desc, c4)
    # compiled states agree (stabilizer backend, forced outcomes) when the measuring operations are totally ordered
    if n <= 8 and desc["nc"] <= 1:
        from . import c13

        for det in (0, 1):
            v = c13.ref_state(desc, det)
            for what, cc in (("from_openqasm", c2), ("from_json", c3)):
                s = compiled(sub, icls, cc, det)
                if not c13.state_matches(s, "stab", v, n):
                    raise Violation(sub, "state", what, icls, "imported circuit compiles to another state (setting %s)" % det)
    # (3) the text, read with standard semantics
    if n <= 8:
        try:
            prog = qasm2.Program(q1)
        except qasm2.QasmError as e:
            raise Violation(sub, "invalid-qasm", "to_openqasm", icls, str(e)[:300])
        want_q = ["p%d" % i for i in range(desc["np"])] + ["e%d" % i for i in range(desc["ne"])]
        if [nme for nme, size in prog.qregs] != want_q or any(size != 1 for nme, size in prog.qregs):
            raise Violation(sub, "qasm-registers", "to_openqasm", icls, "qregs %s" % (prog.qregs,))
        if len(prog.cregs) != desc["nc"]:
            raise Violation(sub, "qasm-registers", "to_openqasm", icls, "cregs %s" % (prog.cregs,))
        for det in (0, 1):
            try:
                v, nq, cvals, log = prog.run(det)
            except qasm2.QasmError as e:
                raise Violation(sub, "invalid-qasm", "to_openqasm", icls, str(e)[:300])
            # follow the text's outcomes on the circuit model (both are linearisations of the same partial order)
            per_q = {}
            for q, o, rnd, p in log:
                per_q.setdefault(q, []).append(o)
            ref = gc.RefRun(desc)
            taken = {}
            for d in gc.expand(desc["ops"]):
                if gc.measuring(d):
                    mq = ref.q(d[1], d[2])
                    k = taken.get(mq, 0)
                    outs = per_q.get(mq, [])
                    if k >= len(outs):
                        raise Violation(sub, "qasm-semantics", "to_openqasm", icls, "text measures qubit %d fewer times than the circuit" % mq)
                    o, p = ref.step(d, "follow", outs[k])
                    taken[mq] = k + 1
                    if p < sv.TOL:
                        raise Violation(sub, "qasm-semantics", "to_openqasm", icls,
                                        "text (standard semantics) takes an outcome that is impossible in the circuit")
                else:
                    ref.step(d, 0)
            if any(taken.get(q, 0) != len(o) for q, o in per_q.items()):
                raise Violation(sub, "qasm-semantics", "to_openqasm", icls, "text measures more often than the circuit")
            if not sv.same_state(v, ref.v):
                raise Violation(sub, "qasm-semantics", "to_openqasm", icls,
                                "the openQASM text read with standard semantics denotes another state (setting %s, overlap %.4f)" % (
                                    det, sv.overlap2(v, ref.v)))
    nontrivial = "wrapper_len>=2" in cl and "multi_then_multi" in cl
    return Info(nontrivial=nontrivial, classes=cl)


# ------------------------------------------------------------------------------------------- generators
@st.composite
def st_big_circuit(draw):
    """registers with two-digit indices"""
    ne = draw(st.integers(0, 12))
    np_ = draw(st.integers(0 if ne else 1, 12))
    nc = draw(st.integers(0, 12))
    ops = draw(st.lists(gc.st_op(ne, np_, nc), min_size=1, max_size=25))
    # multi-line idioms on the highest registers (two-digit indices in every position)
    if ne and np_ and nc:
        for g in draw(st.lists(st.sampled_from(["MCR", "CCNOT", "CCZ", "MZ"]), max_size=3)):
            pos = draw(st.integers(0, len(ops)))
            a, b = (("e", ne - 1), ("p", np_ - 1)) if draw(st.booleans()) else (("p", np_ - 1), ("e", ne - 1))
            ops.insert(pos, ["MZ", a[0], a[1], nc - 1] if g == "MZ" else [g, a[0], a[1], b[0], b[1], nc - 1])
    return {"ne": ne, "np": np_, "nc": nc, "ops": ops}


def strat(tier):
    small = gc.st_circuit(max_q=5, max_len=25, max_c=3)
    pre = st.one_of(st.just([]), st.lists(st.sampled_from(["unwrap", "group", "rmid", "copy", "replace", "replace"]), min_size=1, max_size=2))
    return st.tuples(st.one_of(small, small, st_big_circuit()), pre).map(lambda t: {"circ": t[0], "pre": t[1]})


KINDS = (
    [[g, "e", 0] for g in gc.ONE] + [["W", "e", 0, ["H", "P"]], ["W", "e", 0, ["Pdag", "X"]], ["W", "e", 0, ["I"]]]
    + [["CNOT", "e", 0, "p", 0], ["CZ", "e", 0, "p", 0], ["MZ", "e", 0, 0], ["CCNOT", "e", 0, "p", 0, 0], ["CCZ", "e", 0, "p", 0, 0],
       ["MCR", "e", 0, "p", 0, 0]]
)


def _on(d, shift):
    """same operation on other registers (e1 / p1 / c1)"""
    d = list(d)
    if shift:
        if d[0] in gc.ONE or d[0] == "W" or d[0] == "MZ":
            d[2] = 1
            if d[0] == "MZ":
                d[3] = 1
        else:
            d[2] = 1
            d[4] = 1
            if len(d) > 5:
                d[5] = 1
    return d


def enum_adjacent(tier, seed):
    cases = []
    for a in KINDS:
        for b in KINDS:
            for shift in (0, 1):
                ops = [list(a), _on(b, shift)]
                cases.append({"circ": {"ne": 2, "np": 2, "nc": 2, "ops": ops}})
                cases.append({"circ": {"ne": 2, "np": 2, "nc": 2, "ops": [["H", "e", 0]] + ops + [["H", "p", 1]]}})
    return cases, True


def check_fresh(case, sub="fresh_export"):
    """Export is deterministic: the same circuit built in fresh interpreters with different PYTHONHASHSEED values exports to the same
    openQASM text and the same JSON text"""
    import os
    import subprocess
    import sys

    from ..core import HOME

    outs = []
    for hs in case["hashseeds"]:
        env = dict(os.environ, PYTHONHASHSEED=str(hs))
        r = subprocess.run([sys.executable, "-m", "vf.props.c14_worker"], input=json.dumps(case), env=env, capture_output=True, text=True,
                           timeout=600, cwd=HOME)
        if r.returncode != 0:
            raise Violation(sub, "exception:subprocess", "export", "batch", r.stderr[-400:])
        outs.append(json.loads(r.stdout.strip().splitlines()[-1]))
    for k, desc in enumerate(case["circuits"]):
        for o in outs[1:]:
            for idx, what in ((0, "to_openqasm"), (1, "to_json"), (2, "copy().to_openqasm")):
                if o[k][idx] != outs[0][k][idx]:
                    raise Violation(sub, "export-nondeterministic", what, "PYTHONHASHSEED",
                                    "circuit %d exports differently under another PYTHONHASHSEED: %s" % (k, json.dumps(desc)[:300]))
    return Info(nontrivial=True, classes=["fresh_interpreters"])


def strat_fresh(tier):
    small = gc.st_circuit(max_q=5, max_len=25, max_c=3)
    return st.fixed_dictionaries({"circuits": st.lists(st.one_of(small, st_big_circuit()), min_size=40, max_size=40),
                                  "hashseeds": st.just([1, 2, 3])})


SUBS = [
    Sub("roundtrip", check, strategy=strat, n={"quick": 120, "thorough": 3000}),
    Sub("adjacent", lambda c: check(c, "roundtrip"), enum=enum_adjacent,
        doc="every ordered pair of %d operation kinds adjacent on the same and on different registers, bare and embedded" % len(KINDS)),
    Sub("fresh_export", check_fresh, strategy=strat_fresh, n={"quick": 1, "thorough": 16}, shrink=False, timeout={"quick": 600, "thorough": 900},
        doc="batches of 40 circuits exported in three fresh interpreters with different PYTHONHASHSEED values: identical openQASM and JSON texts"),
]
