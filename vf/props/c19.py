"""C19 - random-search solvers are reproducible and report honest, ordered results."""
import json
import os
import subprocess
import sys

import numpy as np
from hypothesis import strategies as st

from ..core import HOME, REPO, Info, Violation, guarded
from ..engine import Sub
from ..gen import graphs as gg
from ..ref import graphs as rg

ID = "C19"
RULE = (
    "targets = small connected graph states (n=2..4) as stabilizer states; solver in {EvolutionarySolver (1-2 emitters), "
    "HybridEvolutionarySolver}; settings n_pop 1-6, n_stop 1-6, n_hof 1-6 (also n_hof > n_pop), selection on/off, "
    "tournament_k 0-3, adaptive probabilities on/off; compiler stabilizer (density matrix for n<=3), measurement setting "
    "0/1/probabilistic; seeds. Each case runs the solver twice in-process with the same seed; a sub-set is also run in two "
    "fresh interpreters with different PYTHONHASHSEED. Non-trivial = run in which the hall of fame changed in at least two "
    "generations and holds >= 2 distinct circuits. Distinct = SHA-1."
)
ASSUMPTIONS = ["re-evaluation of a stored circuit (compile, trace out emitters, metric) is deterministic for the forced measurement settings; "
               "for the probabilistic setting the stored score is only required to be reproducible with the seed",
               "the fresh-interpreter comparison uses graphiq from the same working tree"]
REQUIRED_CLASSES = {"runs": ["hybrid", "evolutionary", "selection", "adaptive", "n_hof>n_pop", "hof_changed_twice", "initial_circuit_given"]}


def build_solver(case):
    from graphiq.backends.density_matrix.compiler import DensityMatrixCompiler
    from graphiq.backends.stabilizer.compiler import StabilizerCompiler
    from graphiq.backends.stabilizer.functions.rep_conversion import get_clifford_tableau_from_graph
    from graphiq.metrics import Infidelity
    from graphiq.solvers.evolutionary_solver import EvolutionarySolver, EvolutionarySolverSetting
    from graphiq.solvers.hybrid_solvers import HybridEvolutionarySolver
    from graphiq.state import QuantumState

    n, mask = case["n"], case["mask"]
    g = rg.to_nx(n, mask)
    target = QuantumState(get_clifford_tableau_from_graph(g), rep_type="s")
    comp = StabilizerCompiler() if case.get("compiler", "stab") == "stab" else DensityMatrixCompiler()
    comp.measurement_determinism = case.get("det", 1)
    if case.get("compiler") == "dm":
        target = QuantumState(np.outer(rg.graph_state(n, mask), rg.graph_state(n, mask).conj()), rep_type="dm")
    metric = Infidelity(target=target)
    setting = EvolutionarySolverSetting(n_hof=case["n_hof"], n_stop=case["n_stop"], n_pop=case["n_pop"],
                                        tournament_k=case.get("k", 2), selection_active=case.get("selection", False),
                                        use_adapt_probability=case.get("adaptive", False))
    if case["solver"] == "hybrid":
        solver = HybridEvolutionarySolver(target=target, metric=metric, compiler=comp, solver_setting=setting)
    else:
        init_circ = None
        if case.get("init_circuit"):
            # the search starts from a circuit handed to the constructor (the solver's own initialisation circuit, built by a throw-away solver)
            tmp = EvolutionarySolver(target=target, metric=metric, compiler=comp, n_emitter=case.get("ne", 1), n_photon=n)
            np.random.seed(case["seed"] % (2**32))
            ea = tmp.get_emission_assignment(n, case.get("ne", 1))
            ma = tmp.get_measurement_assignment(n, case.get("ne", 1))
            init_circ = tmp.initialization(ea, ma)
        solver = EvolutionarySolver(target=target, metric=metric, compiler=comp, circuit=init_circ, n_emitter=case.get("ne", 1), n_photon=n,
                                    solver_setting=setting)
    return solver, comp, metric


def run_once(case, observe=None):
    solver, comp, metric = build_solver(case)
    history = []
    pops = []
    orig = solver.update_hof

    def spy(population, *args, **kwargs):  # transparent to extra arguments a refactoring may add
        orig(population, *args, **kwargs)
        history.append(solver.hof[0][0])
        pops.append([c for _, c in population])

    solver.update_hof = spy
    solver.seed(case["seed"])
    import warnings

    with warnings.catch_warnings():
        warnings.simplefilter("ignore")
        solver.solve()
    return solver, comp, metric, history, pops


def hof_signature(solver):
    out = []
    for score, circ in solver.hof:
        out.append([None if circ is None else float(score), None if circ is None else circ.to_openqasm()])
    return out


def check_run(case, sub="runs"):
    icls = "%s:%s" % (case["solver"], "n_hof>n_pop" if case["n_hof"] > case["n_pop"] else "n_hof<=n_pop")
    cl = [case["solver"]]
    if case.get("selection"):
        cl.append("selection")
    if case.get("adaptive"):
        cl.append("adaptive")
    if case["n_hof"] > case["n_pop"]:
        cl.append("n_hof>n_pop")
    if case.get("init_circuit") and case["solver"] == "evolutionary":
        cl.append("initial_circuit_given")
    # an unrelated solver object sets its one-qubit gate distributions (uniform) before the first run and (non-uniform) before
    # the second: nothing of that may reach the solvers under test, and the case behaves the same whatever ran before it
    def customise(dist_of):
        other, _, _ = build_solver(case)
        k_ops = len(other.one_qubit_ops)
        for upd in ("update_emitter_one_qubit_gate_probs", "update_photonic_one_qubit_gate_probs"):
            if hasattr(other, upd):
                guarded(sub, icls, getattr(other, upd), [dist_of(i) for i in range(k_ops)])

    customise(lambda i: 1.0)
    solver, comp, metric, history, pops = guarded(sub, icls, run_once, case)
    sig1 = hof_signature(solver)
    # (b) ordered, placeholders only at the tail
    scores = [s for s, c in solver.hof]
    seen_placeholder = False
    prev = -np.inf
    for s, c in solver.hof:
        if c is None:
            seen_placeholder = True
            continue
        if seen_placeholder:
            raise Violation(sub, "hof-order", "hall-of-fame", icls, "a circuit follows a placeholder entry")
        if s < prev - 1e-12:
            raise Violation(sub, "hof-order", "hall-of-fame", icls, "scores %s are not non-decreasing" % (scores,))
        prev = s
    if solver.hof[0][1] is None:
        raise Violation(sub, "hof-empty", "hall-of-fame", icls, "no circuit in the hall of fame after solve()")
    # (d) result is the best entry
    if solver.result is None or solver.result[0] != solver.hof[0][0] or solver.result[1] is not solver.hof[0][1]:
        raise Violation(sub, "result", "solve", icls, "result is not the first hall-of-fame entry")
    # (e) best score never gets worse
    for a, b in zip(history, history[1:]):
        if b > a + 1e-12:
            raise Violation(sub, "best-got-worse", "update_hof", icls, "best score per generation %s" % (history,))
    if len(history) != case["n_stop"]:
        raise Violation(sub, "generations", "solve", icls, "%d hall-of-fame updates for n_stop=%d" % (len(history), case["n_stop"]))
    try:
        logged = list(solver.logs["hof"]["cost_min"])
        if len(logged) == len(history) and any(abs(x - y) > 1e-12 for x, y in zip(logged, history)):
            raise Violation(sub, "log-mismatch", "update_logs", icls, "logged best %s, observed %s" % (logged, history))
    except (KeyError, TypeError):
        pass
    # (c) stored score = metric re-evaluated on the stored circuit (forced settings)
    if case.get("det", 1) in (0, 1):
        for s, c in solver.hof:
            if c is None:
                continue
            state = guarded(sub, icls, comp.compile, c)
            state.partial_trace(keep=list(range(c.n_photons)), dims=(c.n_photons + c.n_emitters) * [2])
            val = guarded(sub, icls, metric.evaluate, state, c)
            if abs(val - s) > 1e-9:
                raise Violation(sub, "score-dishonest", "hall-of-fame", icls, "stored score %r, re-evaluated %r" % (s, val))
    # (f) hall-of-fame circuits are not aliased with population circuits
    import graphiq.circuit.ops as ops

    before = [None if c is None else c.to_openqasm() for _, c in solver.hof]
    for gen in pops[-1:]:
        for c in gen:
            c.add(ops.Hadamard(register=0, reg_type="e"))
    after = [None if c is None else c.to_openqasm() for _, c in solver.hof]
    if before != after:
        raise Violation(sub, "hof-aliased", "update_hof", icls, "changing a population circuit changed a hall-of-fame circuit")
    # (a) reproducible with the seed, in process; in between, an unrelated solver object customises its one-qubit gate
    # distributions (nothing of that may reach other solver objects)
    customise(lambda i: 1.0 + (i % 3) + 5.0 * (i % 2))
    solver2, _, _, history2, _ = guarded(sub, icls, run_once, case)
    sig2 = hof_signature(solver2)
    if sig1 != sig2:
        raise Violation(sub, "not-reproducible", "seed", icls, "two runs with seed %s give different halls of fame" % case["seed"])
    distinct = len({q for s, q in sig1 if q is not None})
    changes = sum(1 for a, b in zip([np.inf] + history, history) if b < a)
    if changes >= 2:
        cl.append("hof_changed_twice")
    return Info(nontrivial=(changes >= 2 and distinct >= 2), classes=cl)


def check_subprocess(case, sub="subprocess"):
    """same seeds, fresh interpreters with different PYTHONHASHSEED; several solver configurations per interpreter"""
    outs = []
    for hs in case["hashseeds"]:
        env = dict(os.environ, PYTHONHASHSEED=str(hs))
        r = subprocess.run([sys.executable, "-m", "vf.props.c19_worker", json.dumps(case)], env=env, capture_output=True, text=True,
                           timeout=900, cwd=HOME)
        if r.returncode != 0:
            raise Violation(sub, "exception:subprocess", "solve", "batch", r.stderr[-400:])
        outs.append(json.loads(r.stdout.strip().splitlines()[-1]))
    for k, cfg in enumerate(case["configs"]):
        if any(o[k] != outs[0][k] for o in outs[1:]):
            raise Violation(sub, "not-reproducible", "PYTHONHASHSEED", cfg["solver"],
                            "configuration %d (%s, seed %s): same seed, different PYTHONHASHSEED, halls of fame differ" % (k, cfg["solver"], cfg["seed"]))
    return Info(nontrivial=True, classes=sorted({c["solver"] for c in case["configs"]}))


@st.composite
def st_case(draw, sub=False):
    n = draw(st.integers(2, 4))
    g = draw(gg.st_graph(n, n, connected=True))
    solver = draw(st.sampled_from(["evolutionary", "hybrid", "hybrid"]))
    c = {
        "n": n, "mask": g["mask"], "solver": solver, "ne": draw(st.integers(1, 2)),
        "n_pop": draw(st.integers(1, 6)), "n_stop": draw(st.integers(1, 6)), "n_hof": draw(st.integers(1, 6)),
        "selection": draw(st.booleans()), "k": draw(st.integers(0, 3)), "adaptive": draw(st.booleans()),
        "compiler": draw(st.sampled_from(["stab", "stab", "stab", "dm"])) if n <= 3 else "stab",
        "det": draw(st.sampled_from([0, 1, 1, "probabilistic"])), "seed": draw(st.integers(0, 10**6)),
        "init_circuit": draw(st.integers(0, 3)) == 0,
    }
    if sub:
        c["compiler"] = "stab"
        # large hall of fame, several generations: a divergence of the search is then visible in the hall of fame
        c["n_pop"] = 6
        c["n_stop"] = 6
        c["n_hof"] = 6
        if solver == "evolutionary":
            c["ne"] = 2
    return c


def st_batch(tier):
    return st.fixed_dictionaries({"configs": st.lists(st_case(sub=True), min_size=5, max_size=5), "hashseeds": st.just([1, 2, 3])})


SUBS = [
    Sub("runs", check_run, strategy=lambda tier: st_case(), n={"quick": 16, "thorough": 250}, shrink=False,
        timeout={"quick": 300, "thorough": 600}),
    Sub("subprocess", check_subprocess, strategy=st_batch, n={"quick": 1, "thorough": 10}, shrink=False,
        timeout={"quick": 900, "thorough": 1800},
        doc="same case and seed in fresh interpreters with different PYTHONHASHSEED values"),
]
