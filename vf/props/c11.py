"""C11 - the synthesised inverse circuit prepares exactly the given stabilizer state."""
import numpy as np
from hypothesis import strategies as st

from ..core import Info, Violation, guarded
from ..engine import Sub
from ..gen import graphs as gg
from ..gen import stab as gs
from ..ref import graphs as rg
from ..ref import pauli as rp
from ..ref import statevec as sv

ID = "C11"
RULE = (
    "stabilizer states = Clifford word on |0..0> (reference), presented in a random generating set with signs; complete "
    "over all states x all ordered generating sets for n<=2 (n=3: sampled in quick, complete in thorough); all labelled "
    "graphs n<=4 (quick) / 5 (thorough) through get_clifford_tableau_from_graph; large n (<=40) against the Pauli "
    "simulator. Non-trivial = presentation with a Y and a negative sign of an entangled state. Distinct = SHA-1."
)
ASSUMPTIONS = ["dense reference (n<=8) and the independent Pauli simulator (n<=40)", "gate names H,P,X,CNOT,CZ as run_circuit reads them"]
REQUIRED_CLASSES = {"states": ["has_Y", "negative_sign", "non_graph_form", "entangled"]}


def apply_gate_list_dense(v, n, circ):
    for g in circ:
        if g[0] == "CNOT":
            v = sv.cnot(v, n, g[1], g[2])
        elif g[0] == "CZ":
            v = sv.cz(v, n, g[1], g[2])
        elif g[0] == "P_dag":
            v = sv.apply1(v, n, g[1], sv.GATES["Pdag"])
        else:
            v = sv.apply1(v, n, g[1], sv.GATES[g[0]])
    return v


def apply_gate_list_pauli(ps, circ):
    for g in circ:
        if g[0] == "CNOT":
            ps.cnot(g[1], g[2])
        elif g[0] == "CZ":
            ps.cz(g[1], g[2])
        elif g[0] == "P_dag":
            ps.gate1("Pdag", g[1])
        else:
            ps.gate1(g[0], g[1])


def _check_inverse(sub, icls, S, n, v):
    """S: reference signed generators; v: dense vector or None"""
    from graphiq.backends.stabilizer.functions.rep_conversion import clifford_from_stabilizer
    from graphiq.backends.stabilizer.functions.stabilizer import inverse_circuit

    tab = gs.stabilizer_tableau(S, n)
    tab2, circ = guarded(sub, icls, inverse_circuit, tab.copy())
    circ = [tuple(g) for g in circ]
    for g in circ:
        if g[0] not in ("H", "P", "X", "CNOT", "CZ", "P_dag", "Y", "Z", "I"):
            raise Violation(sub, "unknown-gate", "inverse_circuit", icls, str(g))
    # returned tableau: Z only, positive signs
    if np.any(tab2.x_matrix) or not np.array_equal(tab2.z_matrix, np.eye(n, dtype=int)) or np.any(tab2.phase):
        raise Violation(sub, "final-tableau", "inverse_circuit", icls,
                        "returned tableau is not +Z_1..+Z_n: %s %s" % (tab2.to_labels(), tab2.phase.tolist()))
    if v is not None:
        w = apply_gate_list_dense(v, n, circ)
        if not sv.same_state(w, sv.zero_state(n)):
            raise Violation(sub, "circuit-wrong", "inverse_circuit", icls, "circuit %s does not map the state to |0..0>" % (circ,))
    else:
        ps = rp.PauliSim(n)
        ps.stab = list(S)
        apply_gate_list_pauli(ps, circ)
        if rp.group_key(ps.stab, n) != rp.group_key(rp.PauliSim(n).stab, n):
            raise Violation(sub, "circuit-wrong", "inverse_circuit", icls, "circuit does not map the state to |0..0> (Pauli model)")
    # clifford_from_stabilizer
    ct = guarded(sub, icls, clifford_from_stabilizer, tab.copy())
    probs = rp.clifford_tableau_problems(ct)
    if probs:
        raise Violation(sub, "invalid-tableau", "clifford_from_stabilizer", icls, "; ".join(probs))
    got = rp.stabilizer_paulis(ct)
    if not all(rp.is_hermitian(p) for p in got) or rp.group_key(got, n) != rp.group_key(S, n):
        raise Violation(sub, "state-mismatch", "clifford_from_stabilizer", icls, "Clifford tableau denotes another state")
    if v is not None and not rp.denotes(ct, v, n):
        raise Violation(sub, "state-mismatch", "clifford_from_stabilizer", icls, "Clifford tableau does not stabilise the vector")
    return circ


def check_state(case, sub="states"):
    from graphiq.backends.stabilizer.clifford_tableau import CliffordTableau

    n = case["n"]
    dense = n <= 8
    S, D, v = gs.present(case, dense=dense)
    cl = gs.classes(S, n)
    ent = False
    if dense and n >= 2:
        ent = any(sv.schmidt_rank_log2(v, n, k) > 0 for k in range(n - 1))
    elif n > 8:
        ent = True
        cl.append("n>8")
    if ent:
        cl.append("entangled")
    icls = "plain"
    _check_inverse(sub, icls, S, n, v)
    # CliffordTableau(StabilizerTableau)
    ct = guarded(sub, icls, CliffordTableau, gs.stabilizer_tableau(S, n))
    probs = rp.clifford_tableau_problems(ct)
    if probs:
        raise Violation(sub, "invalid-tableau", "CliffordTableau(StabilizerTableau)", icls, "; ".join(probs))
    if rp.group_key(rp.stabilizer_paulis(ct), n) != rp.group_key(S, n):
        raise Violation(sub, "state-mismatch", "CliffordTableau(StabilizerTableau)", icls, "denotes another state")
    return Info(nontrivial=("has_Y" in cl and "negative_sign" in cl and ent), classes=cl)


def check_graph(case, sub="graphs"):
    from graphiq.backends.stabilizer.functions.rep_conversion import get_clifford_tableau_from_graph

    n, mask = case["n"], case["mask"]
    g = gg.to_nx(case)
    v = rg.graph_state(n, mask)
    cl = gg.classes(n, mask)
    if case.get("labels") and list(case["labels"]) != sorted(case["labels"]):
        cl.append("node_order_not_sorted")
    ct = guarded(sub, "graph", get_clifford_tableau_from_graph, g)
    probs = rp.clifford_tableau_problems(ct)
    if probs:
        raise Violation(sub, "invalid-tableau", "get_clifford_tableau_from_graph", "graph", "; ".join(probs))
    if not rp.denotes(ct, v, n):
        raise Violation(sub, "state-mismatch", "get_clifford_tableau_from_graph", "graph", "tableau does not denote |G>")
    # the same graph object with one edge moved in place (node and edge counts unchanged), asked again
    edges = rg.edges_from_mask(n, mask)
    non_edges = [pq for pq in rg.pairs(n) if pq not in edges]
    if edges and non_edges:
        nodes = list(g.nodes)
        (a, b), (c, d) = edges[mask % len(edges)], non_edges[mask % len(non_edges)]
        g.remove_edge(nodes[a], nodes[b])
        g.add_edge(nodes[c], nodes[d])
        mask2 = mask ^ (1 << rg.pairs(n).index((a, b))) ^ (1 << rg.pairs(n).index((c, d)))
        ct2 = guarded(sub, "graph:edited_in_place", get_clifford_tableau_from_graph, g)
        if rp.clifford_tableau_problems(ct2) or not rp.denotes(ct2, rg.graph_state(n, mask2), n):
            raise Violation(sub, "state-mismatch", "get_clifford_tableau_from_graph", "graph:edited_in_place",
                            "after moving an edge of the same graph object the tableau does not denote the graph as it is now")
        cl.append("asked_again_after_edit")
    return Info(nontrivial=(bin(mask).count("1") >= 2), classes=cl)


def strat_states(tier):
    small = gs.st_state(1, 6 if tier == "quick" else 8, max_word=30, max_rowops=14)
    big = gs.st_state(9, 24 if tier == "quick" else 40, max_word=60, max_rowops=25)
    huge = gs.st_state(62, 70, max_word=120, max_rowops=25)  # beyond 64: integer packing / dtype limits
    return st.one_of(small, small, gs.st_sparse_state(5, 9), gs.st_sparse_state(5, 9), big, big, huge)


def enum_states(tier, seed):
    rng = __import__("random").Random(seed)
    cases = []
    exhaustive = True
    for n in (1, 2):
        for w in gs.all_states(n):
            for M in gs.all_invertible(n):
                cases.append({"n": n, "word": w, "M": M})
    ws, ms = gs.all_states(3), gs.all_invertible(3)
    if tier == "thorough":
        for w in ws:
            for M in ms:
                cases.append({"n": 3, "word": w, "M": M})
    else:
        exhaustive = False
        for w in ws:
            for M in rng.sample(ms, 12):
                cases.append({"n": 3, "word": w, "M": M})
    return cases, exhaustive


def enum_graphs(tier, seed):
    # vertex i is the i-th node of graph.nodes; its label is arbitrary (shuffled or non-contiguous labels: node order not sorted)
    rng = __import__("random").Random(seed)
    out = []
    for g in gg.all_graphs(4 if tier == "quick" else 5):
        n = g["n"]
        out.append(g)
        if n >= 2:
            lab = list(range(n)) if rng.random() < 0.5 else [3 * i + 1 for i in range(n)]
            rng.shuffle(lab)
            out.append(dict(g, labels=lab))
    return out, True


SUBS = [
    Sub("states", check_state, strategy=strat_states, n={"quick": 600, "thorough": 8000}),
    Sub("complete", lambda c: check_state(c, "states"), enum=enum_states,
        doc="all states x all ordered generating sets n<=2; n=3: 12 of the 168 generating sets per state (quick), all (thorough)"),
    Sub("graphs", check_graph, enum=enum_graphs, doc="every labelled graph n<=4 / 5 via get_clifford_tableau_from_graph"),
]
