"""fresh-interpreter worker for C19: runs one solver case and prints its hall of fame as JSON"""
import json
import os
import sys


def main():
    case = json.loads(sys.argv[1])
    devnull = os.open(os.devnull, os.O_WRONLY)
    saved = os.dup(1)
    os.dup2(devnull, 1)
    from vf.props import c19

    solver, comp, metric, history, pops = c19.run_once(case)
    sig = c19.hof_signature(solver)
    os.dup2(saved, 1)
    print(json.dumps(sig))


if __name__ == "__main__":
    main()
