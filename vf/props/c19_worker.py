"""fresh-interpreter worker for C19: runs one solver case and prints its hall of fame as JSON"""
import json
import os
import sys


def main():
    case = json.loads(sys.argv[1])
    devnull = os.open(os.devnull, os.O_WRONLY)
    saved = os.dup(1)
    os.dup2(devnull, 1)
    from vf.props import c19

    sigs = []
    for cfg in case["configs"]:
        solver, comp, metric, history, pops = c19.run_once(cfg)
        sigs.append(c19.hof_signature(solver))
    os.dup2(saved, 1)
    print(json.dumps(sigs))


if __name__ == "__main__":
    main()
