"""C16 - relabelling, isomorph search and LC-orbit walks stay in the equivalence class."""
import itertools

import numpy as np
from hypothesis import strategies as st

from ..core import Info, Violation, guarded
from ..engine import Sub
from ..gen import graphs as gg
from ..ref import graphs as rg

ID = "C16"
RULE = (
    "graphs n<=9 (both branches of the label sampler: n<8 and n>=8) incl. highly symmetric ones (complete, empty, star, "
    "ring) x permutations x (n_iso, rel_inc_thresh, allow_exhaustive, sort_emit, label_map, thresh, seed) for relabel / "
    "get_relabel_map / iso_finder; LC-orbit explorers lc_orbit_finder (depth, size threshold, with_iso, rand, rep_allowed), "
    "rgs_orbit_finder (repeater graphs), linear_partial_orbit (paths), depth_first_orbit (n<=5), check_isomorphism, "
    "remove_iso against the brute-force orbit (table n<=6, BFS n=7) and brute-force isomorphism. Non-trivial = graph with "
    "a non-trivial automorphism group and n_iso > 2, or an explorer output of >= 3 graphs. Distinct = SHA-1."
)
ASSUMPTIONS = ["isomorphism by brute force over permutations (n<=7) / networkx VF2 (n=8,9)", "orbit membership by reference BFS",
               "explorers are called with node labels 0..n-1 in order (what every caller passes)",
               "lc_orbit_finder(rep_allowed=True) is only generated with a size threshold or depth (it never terminates otherwise)"]
REQUIRED_CLASSES = {"iso": ["symmetric", "label_map", "sort_emit", "n>=8", "n_iso>found"],
                    "orbit": ["with_iso", "rand", "rep_allowed", "out>=3", "linear_even_n>=8"],
                    "iso_large": ["n>=65"]}


def _adj(h, n):
    import networkx as nx

    if isinstance(h, np.ndarray):
        a = h
    else:
        a = nx.to_numpy_array(h, nodelist=list(range(n)))
    return (np.asarray(a) != 0).astype(int)


def is_iso(n, a, b):
    if n <= 7:
        return rg.isomorphic(n, rg.mask_from_adj(a), rg.mask_from_adj(b))
    import networkx as nx

    return nx.is_isomorphic(nx.from_numpy_array(a), nx.from_numpy_array(b))


def in_orbit(n, m0, m):
    if n <= 6:
        return rg.lc_equivalent(n, m0, m)
    return m in _orbit_cache(n, m0)


_OC = {}


def _orbit_cache(n, m0):
    k = (n, m0)
    if k not in _OC:
        if len(_OC) > 50:
            _OC.clear()
        _OC[k] = rg.lc_orbit(n, m0)
    return _OC[k]


def check_relabel(case, sub="relabel"):
    import graphiq.utils.relabel_module as rm

    n, mask, perm = case["n"], case["mask"], case["perm"]
    perm = list(np.argsort(np.argsort(perm[:n]))) if len(perm) >= n else list(range(n))
    a = rg.adj_from_mask(n, mask)
    a_in = a.copy()
    b = guarded(sub, "plain", rm.relabel, a_in, np.array(perm))
    if not np.array_equal(a_in, a):
        raise Violation(sub, "argument-mutated", "relabel", "plain", "the adjacency matrix passed in was changed")
    b = np.asarray(b)
    for u in range(n):
        for v in range(n):
            if b[perm[u], perm[v]] != a[u, v]:
                raise Violation(sub, "relabel", "relabel", "plain", "edge (%d,%d) not carried to (%d,%d)" % (u, v, perm[u], perm[v]))
    if not np.array_equal(a, rg.adj_from_mask(n, mask)):
        raise Violation(sub, "argument-mutated", "relabel", "plain", "input changed")
    # relabel map between two isomorphic graphs
    for g1, g2 in ((a, b), (rg.to_nx(n, mask), rg.to_nx(n, rg.mask_from_adj(b)))):
        mp = guarded(sub, "plain", rm.get_relabel_map, g1, g2)
        mp = {k: v for k, v in dict(mp).items() if k != -1}
        if sorted(mp.keys()) != list(range(n)) or sorted(mp.values()) != list(range(n)):
            raise Violation(sub, "map-not-bijection", "get_relabel_map", "plain", repr(mp))
        for u in range(n):
            for v in range(n):
                if a[u, v] != b[mp[u], mp[v]]:
                    raise Violation(sub, "map-not-isomorphism", "get_relabel_map", "plain", "map %s" % mp)
    cl = gg.classes(n, mask)
    return Info(nontrivial=(perm != list(range(n)) and mask != 0), classes=cl)


def check_iso(case, sub="iso"):
    import graphiq.utils.relabel_module as rm

    n, mask = case["n"], case["mask"]
    a = rg.adj_from_mask(n, mask)
    kw = dict(rel_inc_thresh=case["rel"], allow_exhaustive=case["exh"], sort_emit=case["sort_emit"], label_map=case["label_map"],
              thresh=case["thresh"], seed=case["seed"])
    n_iso = case["n_iso"]
    cl = gg.classes(n, mask)
    icls = "label_map" if case["label_map"] else "no_label_map"
    if case["sort_emit"]:
        cl.append("sort_emit")
    if case["label_map"]:
        cl.append("label_map")
    if n >= 8:
        cl.append("n>=8")
    import warnings

    with warnings.catch_warnings():
        warnings.simplefilter("ignore")
        a_in = a.copy()
        res = guarded(sub, icls, rm.iso_finder, a_in, n_iso, **kw)
        res2 = guarded(sub, icls, rm.iso_finder, a_in, n_iso, **kw)
        if not np.array_equal(a_in, a):
            raise Violation(sub, "argument-mutated", "iso_finder", icls, "the adjacency matrix passed in was changed")
    maps = None
    if case["label_map"]:
        if not (isinstance(res, tuple) and len(res) == 2):
            raise Violation(sub, "label-map-missing", "iso_finder", icls, "label_map=True but a %s was returned" % type(res).__name__)
        res, maps = res
        res2 = res2[0]
    elif isinstance(res, tuple):
        raise Violation(sub, "unexpected-tuple", "iso_finder", icls, "label_map=False but a tuple was returned")
    mats = [np.asarray(x).astype(int) for x in res]
    if len(mats) != len(res2) or any(not np.array_equal(x, np.asarray(y)) for x, y in zip(mats, res2)):
        raise Violation(sub, "not-reproducible", "iso_finder", icls, "same seed, different result")
    if len(mats) == 0 or len(mats) > n_iso:
        raise Violation(sub, "count", "iso_finder", icls, "%d matrices for n_iso=%d" % (len(mats), n_iso))
    if not case["sort_emit"] and not np.array_equal(mats[0], a):
        raise Violation(sub, "input-not-first", "iso_finder", icls, "first matrix is not the input")
    if case["sort_emit"] and not any(np.array_equal(m, a) for m in mats):
        # with sorting the input may move, but it must still be among the results (it is counted towards n_iso)
        raise Violation(sub, "input-missing", "iso_finder", icls, "input graph not among the results")
    keys = [rg.mask_from_adj(m) for m in mats]
    if len(set(keys)) != len(keys):
        raise Violation(sub, "duplicates", "iso_finder", icls, "two identical adjacency matrices returned")
    for m in mats:
        if m.shape != (n, n) or not np.array_equal(m, m.T) or np.any(np.diag(m)) or not is_iso(n, a, m):
            raise Violation(sub, "not-isomorphic", "iso_finder", icls, "returned matrix is not isomorphic to the input")
    if case["sort_emit"]:
        ems = [max(rg.cut_ranks(n, k) + [0]) for k in keys]
        if ems != sorted(ems):
            raise Violation(sub, "not-sorted", "iso_finder", icls, "emitter counts %s" % ems)
    if maps is not None:
        if len(maps) != len(mats):
            raise Violation(sub, "map-count", "iso_finder", icls, "%d maps for %d matrices" % (len(maps), len(mats)))
        for mp, m in zip(maps, mats):
            mp = {k: v for k, v in dict(mp).items() if k != -1}
            if sorted(mp.keys()) != list(range(n)) or sorted(mp.values()) != list(range(n)):
                raise Violation(sub, "map-not-bijection", "iso_finder", icls, repr(mp))
            for u in range(n):
                for v in range(n):
                    if a[u, v] != m[mp[u], mp[v]]:
                        raise Violation(sub, "map-not-isomorphism", "iso_finder", icls, "map %s" % mp)
    # number of distinct relabellings = n! / |Aut|
    if n <= 6:
        distinct = len({rg.relabel(n, mask, p) for p in itertools.permutations(range(n))})
        if distinct < 120 and n >= 3:
            cl.append("symmetric")
        if n_iso > distinct:
            cl.append("n_iso>found")
            if len(mats) > distinct:
                raise Violation(sub, "count", "iso_finder", icls, "more matrices than distinct relabellings exist")
    return Info(nontrivial=("symmetric" in cl and n_iso > 2), classes=cl)


def check_iso_large(case, sub="iso_large"):
    """iso_finder on 60..72 vertices (beyond 64-bit packing limits): symmetric 0/1 matrices, the input first, pairwise distinct,
    never more than requested, each isomorphic to the input (networkx VF2 as the trusted isomorphism test at this size)"""
    import networkx as nx

    import graphiq.utils.relabel_module as rm

    n = case["n"]
    rng = np.random.default_rng(case["seed"])
    a = np.triu((rng.random((n, n)) < case["p"]).astype(int), 1)
    a = a + a.T
    g = nx.from_numpy_array(a)
    np.random.seed(case["seed"] % (2**32))
    mats = guarded(sub, "plain", rm.iso_finder, a.copy(), case["n_iso"], seed=case["seed"])
    mats = [np.asarray(m_) for m_ in mats]
    if not mats or len(mats) > case["n_iso"]:
        raise Violation(sub, "count", "iso_finder", "plain", "%d matrices for n_iso=%d" % (len(mats), case["n_iso"]))
    if not np.array_equal((mats[0] != 0).astype(int), a):
        raise Violation(sub, "input-not-first", "iso_finder", "plain", "first matrix is not the input")
    seen = set()
    for k, m_ in enumerate(mats):
        b = (m_ != 0).astype(int)
        if b.shape != (n, n) or not np.array_equal(b, b.T) or np.any(np.diag(b)):
            raise Violation(sub, "not-simple", "iso_finder", "plain", "matrix #%d is not a symmetric adjacency matrix (n=%d)" % (k, n))
        if b.tobytes() in seen:
            raise Violation(sub, "duplicates", "iso_finder", "plain", "matrix #%d repeats an earlier one" % k)
        seen.add(b.tobytes())
        if not nx.is_isomorphic(nx.from_numpy_array(b), g):
            raise Violation(sub, "not-isomorphic", "iso_finder", "plain", "matrix #%d is not isomorphic to the input (n=%d)" % (k, n))
    return Info(nontrivial=(len(mats) >= 2 and n >= 65), classes=["n>=65"] if n >= 65 else ["n<65"])


def check_orbit(case, sub="orbit"):
    import graphiq.utils.relabel_module as rm

    n, mask = case["n"], case["mask"]
    g = rg.to_nx(n, mask)
    method = case["method"]
    cl = gg.classes(n, mask) + [method]
    icls = method
    np.random.seed(case.get("seed", 0))
    g_before = (list(g.nodes), sorted(tuple(sorted(e)) for e in g.edges))
    distinct_iso = distinct_adj = False
    first_is_input = True
    if method == "lc_orbit_finder":
        kw = dict(comp_depth=case.get("depth"), orbit_size_thresh=case.get("size"), with_iso=case.get("with_iso", False),
                  rand=case.get("rand", False), rep_allowed=case.get("rep", False))
        if kw["rep_allowed"] and kw["comp_depth"] is None and kw["orbit_size_thresh"] is None:
            kw["orbit_size_thresh"] = 6
        if kw["with_iso"] and kw["comp_depth"] is None and kw["orbit_size_thresh"] is None and n >= 6:
            kw["orbit_size_thresh"] = 40  # the unbounded walk with isomorphs takes ~30 s per 6-vertex graph
        for k in ("with_iso", "rand"):
            if kw[k]:
                cl.append(k)
        if kw["rep_allowed"]:
            cl.append("rep_allowed")
        icls = "lc_orbit_finder:" + ("rand" if kw["rand"] else "det")
        out = guarded(sub, icls, rm.lc_orbit_finder, g, **kw)
        if not kw["rep_allowed"]:
            distinct_iso = not kw["with_iso"]
            distinct_adj = True
        first_is_input = not kw["rand"]
        if kw["orbit_size_thresh"] is not None and len(out) > kw["orbit_size_thresh"]:
            raise Violation(sub, "count", "lc_orbit_finder", icls, "%d graphs for size threshold %d" % (len(out), kw["orbit_size_thresh"]))
    elif method == "rgs_orbit_finder":
        out = guarded(sub, icls, rm.rgs_orbit_finder, g)
    elif method == "linear_partial_orbit":
        out = guarded(sub, icls, rm.linear_partial_orbit, g)
        # documented: "a list of distinct graphs in the orbit ... The first graph in the list is the original graph state"
        distinct_adj = True
        if n % 2 == 0 and n >= 8:
            cl.append("linear_even_n>=8")
    elif method == "depth_first_orbit":
        out = guarded(sub, icls, rm.depth_first_orbit, g)
        first_is_input = False
    else:
        raise ValueError(method)
    if (list(g.nodes), sorted(tuple(sorted(e)) for e in g.edges)) != g_before or any(d for *_, d in g.edges(data=True)) or any(d for _, d in g.nodes(data=True)):
        raise Violation(sub, "argument-mutated", method, icls, "the graph passed in was changed (nodes, edges or attributes)")
    masks = []
    for h in out:
        if h.number_of_nodes() != n:
            raise Violation(sub, "node-count", method, icls, "graph with %d nodes" % h.number_of_nodes())
        a = _adj(h, n)
        if not np.array_equal(a, a.T) or np.any(np.diag(a)):
            raise Violation(sub, "not-simple", method, icls, "returned graph is not simple")
        m = rg.mask_from_adj(a)
        if not in_orbit(n, mask, m):
            raise Violation(sub, "outside-orbit", method, icls, "returned graph (mask %d) is not in the LC orbit of the input" % m)
        masks.append(m)
    if not masks:
        raise Violation(sub, "empty", method, icls, "no graph returned")
    if first_is_input and masks[0] != mask:
        raise Violation(sub, "input-not-first", method, icls, "first graph is not the input")
    if distinct_adj and len(set(masks)) != len(masks):
        raise Violation(sub, "duplicates", method, icls, "identical graphs returned although distinct ones were requested")
    if distinct_iso:
        for i in range(len(masks)):
            for j in range(i):
                if rg.isomorphic(n, masks[i], masks[j]):
                    raise Violation(sub, "iso-duplicates", method, icls, "isomorphic graphs returned although non-isomorphic ones were requested")
    if len(masks) >= 3:
        cl.append("out>=3")
    return Info(nontrivial=len(masks) >= 3, classes=cl)


def check_isocheck(case, sub="isocheck"):
    import graphiq.utils.relabel_module as rm

    n = case["n"]
    masks = case["masks"]
    gs_ = [rg.to_nx(n, m) for m in masks]
    kept = guarded(sub, "plain", rm.remove_iso, list(gs_))
    km = [rg.mask_from_adj(_adj(h, n)) for h in kept]
    # kept is a sub-list, pairwise non-isomorphic, and every input graph is isomorphic to a kept one
    it = iter(masks)
    if not all(any(x == y for y in it) for x in km):
        raise Violation(sub, "not-sublist", "remove_iso", "plain", "kept %s of %s" % (km, masks))
    for i in range(len(km)):
        for j in range(i):
            if rg.isomorphic(n, km[i], km[j]):
                raise Violation(sub, "iso-duplicates", "remove_iso", "plain", "two isomorphic graphs kept")
    for m in masks:
        if not any(rg.isomorphic(n, m, k) for k in km):
            raise Violation(sub, "dropped-distinct", "remove_iso", "plain", "a graph non-isomorphic to every kept one was dropped")
    for only_auto in (False, True):
        r = guarded(sub, "plain", rm.check_isomorphism, gs_[0], gs_[1:], _only_auto=only_auto)
        want = any((masks[0] == m) if only_auto else rg.isomorphic(n, masks[0], m) for m in masks[1:])
        if bool(r) != want:
            raise Violation(sub, "check-isomorphism", "check_isomorphism", "plain", "only_auto=%s: %s, truth %s" % (only_auto, r, want))
    return Info(nontrivial=len(set(masks)) >= 2, classes=[])


def repeater_mask(k):
    """repeater graph on 2k vertices: complete core 0..k-1, leaf k+i attached to core i"""
    n = 2 * k
    P = rg.pairs(n)
    m = 0
    for i in range(k):
        for j in range(i + 1, k):
            m |= 1 << P.index((i, j))
        m |= 1 << P.index((i, k + i))
    return n, m


def strat_relabel(tier):
    g = gg.st_graph(1, 7)
    return st.tuples(g, st.permutations(list(range(7)))).map(lambda t: dict(t[0], perm=list(t[1])))


def strat_iso(tier):
    g = st.one_of(gg.st_graph(2, 6), gg.st_graph(2, 6), gg.st_graph(7, 9))
    cfg = st.fixed_dictionaries({
        "n_iso": st.integers(1, 12), "rel": st.sampled_from([0.05, 0.2, 0.5]), "exh": st.booleans(),
        "sort_emit": st.booleans(), "label_map": st.booleans(), "thresh": st.one_of(st.none(), st.integers(1, 40)),
        "seed": st.one_of(st.integers(0, 1000)),
    })
    return st.tuples(g, cfg).map(lambda t: dict(t[0], **t[1]))


def strat_orbit(tier):
    small = gg.st_graph(2, 6, connected=True)
    lc = st.tuples(st.one_of(small, gg.st_graph(3, 6)), st.fixed_dictionaries({
        "depth": st.one_of(st.none(), st.integers(0, 3)), "size": st.one_of(st.none(), st.integers(1, 8)),
        "with_iso": st.booleans(), "rand": st.booleans(), "rep": st.booleans(), "seed": st.integers(0, 10**6),
    })).map(lambda t: dict(t[0], method="lc_orbit_finder", **t[1]))
    rgs = st.integers(2, 3).map(lambda k: dict(zip(("n", "mask"), repeater_mask(k)), method="rgs_orbit_finder"))
    lin = st.integers(3, 10).map(lambda n: {"n": n, "mask": gg.named(n, "path"), "method": "linear_partial_orbit"})
    dfs = gg.st_graph(2, 5, connected=True).map(lambda g: dict(g, method="depth_first_orbit"))
    return st.one_of(lc, lc, lc, rgs, lin, dfs)


def strat_isocheck(tier):
    return st.integers(2, 5).flatmap(lambda n: st.fixed_dictionaries({
        "n": st.just(n), "masks": st.lists(st.integers(0, rg.n_masks(n) - 1), min_size=2, max_size=7)}))


def enum_iso_named(tier, seed):
    rng = __import__("random").Random(seed)
    cases = []
    for n in range(1, 7):
        for name in ("complete", "empty", "star", "ring", "path"):
            for n_iso in (1, 2, 5, 30):
                cases.append({"n": n, "mask": gg.named(n, name), "n_iso": n_iso, "rel": 0.2, "exh": rng.random() < 0.7,
                              "sort_emit": rng.random() < 0.5, "label_map": rng.random() < 0.5, "thresh": None, "seed": rng.randrange(100)})
    return cases, False


SUBS = [
    Sub("relabel", check_relabel, strategy=strat_relabel, n={"quick": 150, "thorough": 2500}),
    Sub("iso", check_iso, strategy=strat_iso, n={"quick": 60, "thorough": 1200}, timeout={"quick": 60, "thorough": 120}),
    Sub("iso_named", lambda c: check_iso(c, "iso"), enum=enum_iso_named,
        doc="highly symmetric inputs (complete, empty, star, ring, path) n<=6 x n_iso in {1,2,5,30}"),
    Sub("iso_large", check_iso_large, strategy=lambda tier: st.fixed_dictionaries({
        "n": st.integers(60, 72), "p": st.sampled_from([0.05, 0.1, 0.3]), "n_iso": st.integers(2, 4), "seed": st.integers(0, 10**6)}),
        n={"quick": 6, "thorough": 60}, timeout={"quick": 120, "thorough": 300}, doc="iso_finder on random graphs with 60-72 vertices"),
    Sub("orbit", check_orbit, strategy=strat_orbit, n={"quick": 60, "thorough": 1200}, timeout={"quick": 60, "thorough": 120}),
    Sub("isocheck", check_isocheck, strategy=strat_isocheck, n={"quick": 60, "thorough": 800}),
]
