"""C06 - noisy simulation is physical, backend-independent and switchable."""
import numpy as np
from hypothesis import strategies as st

from ..core import Info, Violation, guarded
from ..engine import Sub
from ..gen import circuits as gc
from ..gen import stab as gs
from ..ref import pauli as rp
from ..ref import statevec as sv
from . import c13

ID = "C06"
RULE = (
    "generic circuits (<=4 qubits quick / 5 thorough, <=20 operations) with noise models attached directly to operations "
    "(depolarizing, Pauli X/Y/Z/I error, photon loss; strengths from {0, tiny, generic, 3/4, 1-eps, 1} and floats in [0,1]; "
    "before/after placement; independent models on control and target of two-qubit gates, per-gate lists on wrappers) or "
    "through assign_noise(map); measuring operations only in a noise-free prefix (class M) or absent (class U); both "
    "compilers with noise_simulation on; 4 random pure stabilizer targets per case. Non-trivial = >= 1 entangling gate and "
    ">= 2 noise placements of different kinds with strength in (0,1). Distinct = SHA-1."
)
ASSUMPTIONS = ["reference channel simulation on dense density matrices: depolarizing rho -> (1-p) rho + p/3 sum_P P rho P, Pauli error = the unitary, "
               "photon loss = scalar weight (1-r); 'before' noise precedes the gate, 'after' follows it; wrapper sub-gates carry their own models",
               "measuring operations are generated only where the state is still pure (the two backends define a forced measurement of a mixed state "
               "differently by design: post-selection vs per-branch)", "tolerance 1e-9"]
REQUIRED_CLASSES = {"noisy": ["entangling", "class_U", "class_M", "two_qubit_mixed_placement", "wrapper_noise_list", "wrapper_single_model", "strength_changed_in_place", "strength_0", "strength_1",
                              "before", "after", "kind:depol", "kind:pauli", "kind:loss"],
                    "large": ["qubits>=32", "kind:depol"],
                    "map": ["via_map", "wrapper_asymmetric_noise", "two_qubit_mixed_placement", "class_M", "entangling", "emitter+photon"]}

PAULIS = "IXYZ"


def make_noise(spec):
    import graphiq.noise.noise_models as nm

    if spec is None:
        return nm.NoNoise()
    kind, val, after = spec
    if kind == "depol":
        n = nm.DepolarizingNoise(float(val))
    elif kind == "pauli":
        n = nm.PauliError(PAULIS[int(val) % 4])
    elif kind == "loss":
        n = nm.PhotonLoss(float(val))
    else:
        raise ValueError(kind)
    n.noise_parameters["After gate"] = bool(after)
    return n


def ref_channel(rho, n, q, spec):
    kind, val, after = spec
    if kind == "depol":
        p = float(val)
        out = (1 - p) * rho
        for g in "XYZ":
            u = sv.op1(n, q, sv.GATES[g])
            out = out + (p / 3) * (u @ rho @ u.conj().T)
        return out
    if kind == "pauli":
        u = sv.op1(n, q, sv.GATES[PAULIS[int(val) % 4]])
        return u @ rho @ u.conj().T
    if kind == "loss":
        return (1 - float(val)) * rho
    raise ValueError(kind)


def ref_gate(rho, desc, d):
    n = desc["ne"] + desc["np"]
    g = d[0]
    if g in gc.ONE:
        u = sv.op1(n, gc.qindex(desc, d[1], d[2]), sv.GATES[g])
    else:
        dim = 2**n
        u = np.zeros((dim, dim), dtype=complex)
        c, t = gc.qindex(desc, d[1], d[2]), gc.qindex(desc, d[3], d[4])
        for b in range(dim):
            e = np.zeros(dim, dtype=complex)
            e[b] = 1
            u[:, b] = sv.cnot(e, n, c, t) if g == "CNOT" else sv.cz(e, n, c, t)
    return u @ rho @ u.conj().T


def spec_of(noise):
    """read a graphiq noise object back into a spec (data only)"""
    name = type(noise).__name__
    par = getattr(noise, "noise_parameters", {}) or {}
    after = bool(par.get("After gate", True))
    if name == "NoNoise":
        return None
    if name == "DepolarizingNoise":
        return ["depol", par["Depolarizing probability"], after]
    if name == "PauliError":
        return ["pauli", PAULIS.index(par["Pauli error"]), after]
    if name == "PhotonLoss":
        return ["loss", par["loss rate"], after]
    raise ValueError(name)


def reference(desc, circ, noise_on=True, objs=None, noises=None):
    """reference channel simulation along the order in which the compilers execute the circuit; the noise of every
    (sub-)operation is taken from the case descriptor, not from the library's unwrapped operation objects.
    returns (rho, expected trace, random_measurement_on_mixed_state)"""
    n = desc["ne"] + desc["np"]
    rho = sv.dm(sv.zero_state(n))
    trace = 1.0
    flag = False
    index = {id(o): i for i, o in enumerate(objs)} if objs is not None else None
    plan = []
    for op in circ.sequence():
        d0 = gc.name_of(op)
        if d0 is None:
            continue
        if index is not None and id(op) in index:
            i = index[id(op)]
            d0, nz = desc["ops"][i], noises[i]
        else:
            nz = None if index is not None else op.noise
        if d0[0] == "W":
            k = len(d0[3])
            if index is not None:
                lst = nz if nz is not None else [None] * k
            else:
                lst = [spec_of(x) for x in nz] if isinstance(nz, list) else [None] * k
            if isinstance(lst, dict):
                # one model for the whole wrapper: the channel acts after all of its gates ("After gate") or before them
                whole = lst["whole"]
                gates_ = [([g, d0[1], d0[2]], [None]) for g in d0[3]][::-1]
                carrier = (["I", d0[1], d0[2]], [whole])
                plan += (gates_ + [carrier]) if whole[2] else ([carrier] + gates_)
                continue
            for g, s_ in list(zip(d0[3], lst))[::-1]:
                plan.append(([g, d0[1], d0[2]], [s_]))
        elif len(gc.qregs(d0)) == 2 and not gc.measuring(d0):
            if index is not None:
                plan.append((d0, list(nz) if nz is not None else [None, None]))
            else:
                plan.append((d0, [spec_of(x) for x in nz]))
        else:
            if index is not None:
                plan.append((d0, [nz]))
            else:
                plan.append((d0, [spec_of(nz)] if not isinstance(nz, list) else [None]))
    for d, specs in plan:
        if not noise_on or gc.measuring(d):
            specs = [None for _ in specs]
        if gc.measuring(d):
            mq = gc.qindex(desc, d[1], d[2])
            proj1 = sv.op1(n, mq, np.diag([0, 1]).astype(complex))
            tot = np.trace(rho).real
            p1 = (np.trace(proj1 @ rho).real / tot) if tot > 1e-14 else 0.0
            purity = (np.trace(rho @ rho).real / tot**2) if tot > 1e-14 else 1.0
            if 1e-9 < p1 < 1 - 1e-9 and purity < 1 - 1e-9:
                flag = True
            o = 1 if p1 > 1e-9 else 0  # forced setting 1
            pm = proj1 if o == 1 else sv.op1(n, mq, np.diag([1, 0]).astype(complex))
            po = p1 if o == 1 else 1 - p1
            rho = pm @ rho @ pm / po if po > 1e-14 else rho  # post-selection, the weight of the state is kept
            if d[0] != "MZ" and o == 1:
                tq = gc.qindex(desc, d[3], d[4])
                u = sv.op1(n, tq, sv.GATES["Z" if d[0] == "CCZ" else "X"])
                rho = u @ rho @ u.conj().T
                if d[0] == "MCR":
                    u = sv.op1(n, mq, sv.GATES["X"])
                    rho = u @ rho @ u.conj().T
            continue
        qs = [gc.qindex(desc, t, r) for t, r in gc.qregs(d)]
        if len(specs) != len(qs):
            specs = (specs + [None, None])[: len(qs)]
        for s, q in zip(specs, qs):
            if s is not None and not s[2]:
                rho = ref_channel(rho, n, q, s)
        rho = ref_gate(rho, desc, d) if d[0] != "I" else rho
        for s, q in zip(specs, qs):
            if s is not None and s[2]:
                rho = ref_channel(rho, n, q, s)
        for s in specs:
            if s is not None and s[0] == "loss":
                trace *= 1 - float(s[1])
    return rho, trace, flag


def build_noisy(desc, noises, return_ops=False):
    import graphiq.noise.noise_models as nm

    objs = []
    for d, nz in zip(desc["ops"], noises):
        if nz is None:
            objs.append(None)
        elif d[0] in gc.ONE:
            objs.append(make_noise(nz))
        elif d[0] == "W":
            # a list gives every listed gate its own model; {"whole": spec} gives the wrapper one model for the whole gate
            objs.append(make_noise(nz["whole"]) if isinstance(nz, dict) else [make_noise(s) for s in nz])
        else:
            objs.append([make_noise(nz[0]), make_noise(nz[1])])
    return gc.build(desc, objs, return_ops=return_ops)


def classes(desc, noises):
    cl = gc.classes_of(desc)
    cl.append("class_M" if any(gc.measuring(d) for d in desc["ops"]) else "class_U")
    flat = []
    for d, nz in zip(desc["ops"], noises):
        if nz is None:
            continue
        if d[0] in gc.ONE:
            flat.append(nz)
        elif d[0] == "W" and isinstance(nz, dict):
            flat.append(nz["whole"])
            cl.append("wrapper_single_model")
        elif d[0] == "W":
            flat += [s for s in nz if s is not None]
            if sum(1 for s in nz if s is not None) >= 1 and len(nz) >= 2:
                cl.append("wrapper_noise_list")
        else:
            flat += [s for s in nz if s is not None]
            if nz[0] is not None and nz[1] is not None and nz[0][2] != nz[1][2]:
                cl.append("two_qubit_mixed_placement")
    for s in flat:
        cl.append("kind:" + s[0])
        cl.append("after" if s[2] else "before")
        if s[0] in ("depol", "loss"):
            if float(s[1]) == 0:
                cl.append("strength_0")
            if float(s[1]) == 1:
                cl.append("strength_1")
    kinds = {s[0] for s in flat if s[0] == "pauli" or 0 < float(s[1]) < 1}
    return sorted(set(cl)), (len(kinds) >= 2 and "entangling" in cl), flat


def input_class(desc, noises, flat):
    if any(s[0] == "loss" and float(s[1]) == 1 for s in flat):
        return "zero_weight"
    for d, nz in zip(desc["ops"], noises):
        if nz is not None and len(gc.qregs(d)) == 2 and nz[0] is not None and nz[1] is not None and nz[0][2] != nz[1][2]:
            return "two_qubit_mixed_placement"
    if any(s[0] == "pauli" for s in flat):
        return "pauli_error"
    return "plain"


def compile_noisy(sub, icls, circ, backend, noise_on=True):
    comp = c13.compilers()[backend]()
    comp.measurement_determinism = 1
    comp.noise_simulation = bool(noise_on)
    return guarded(sub, icls, comp.compile, circ)


def mixture_of(state):
    d = state.rep_data
    if type(d).__name__ == "MixedStabilizer":
        return [(float(p), t) for p, t in d.mixture]
    return [(1.0, d.tableau)]


def check(case, sub="noisy"):
    desc, noises = case["circ"], case["noises"]
    cl, nontrivial, flat = classes(desc, noises)
    icls = input_class(desc, noises, flat)
    circ, objs = build_noisy(desc, noises, return_ops=True)
    return check_core(case, desc, noises, circ, objs, sub, icls, cl, nontrivial)


CLASSNAME = {"I": "Identity", "H": "Hadamard", "P": "Phase", "Pdag": "PhaseDagger", "X": "SigmaX", "Y": "SigmaY", "Z": "SigmaZ",
             "CNOT": "CNOT", "CZ": "CZ"}


def wire_keys(circ):
    """(first quantum register, position on that wire) for every operation, in sequence() order"""
    count = {}
    out = []
    for op in circ.sequence():
        d = gc.name_of(op)
        if d is None:
            continue
        regs = gc.qregs(d)
        out.append((op, (regs[0], count.get(regs[0], 0))))
        for r in regs:
            count[r] = count.get(r, 0) + 1
    return out


def check_map(case, sub="map"):
    """noise attached through CircuitDAG.assign_noise(map): every operation of the returned circuit - plain, inside a wrapper,
    control and target of a two-qubit gate - must behave as carrying the model the map gives for its gate name and register type(s)"""
    desc, mp = case["circ"], case["map"]
    base, objs = gc.build(desc, return_ops=True)
    before = [gc.name_of(o) for o in base.sequence()]
    lib_map = {}
    for key in ("e", "p", "ee", "ep", "pe", "pp"):
        lib_map[key] = {}
        for g, spec in mp.get(key, {}).items():
            lib_map[key][CLASSNAME[g]] = [make_noise(x) for x in spec] if len(key) == 2 and isinstance(spec[0], (list, type(None))) else make_noise(spec)
    noisy = guarded(sub, "assign_noise", base.assign_noise, lib_map)
    if [gc.name_of(o) for o in base.sequence()] != before or any(spec_of_any(o.noise) for o in base.sequence() if gc.name_of(o) is not None):
        raise Violation(sub, "input-mutated", "assign_noise", "plain", "assign_noise changed the circuit it was called on")
    # noise per descriptor operation according to the map
    noises = []
    for d in desc["ops"]:
        if gc.measuring(d):
            noises.append(None)
        elif d[0] in gc.ONE:
            noises.append(mp.get(d[1], {}).get(d[0]))
        elif d[0] == "W":
            lst = [mp.get(d[1], {}).get(g) for g in d[3]]
            noises.append(lst if any(x is not None for x in lst) else None)
        else:
            spec = mp.get(d[1] + d[3], {}).get(d[0])
            if spec is None:
                noises.append(None)
            elif isinstance(spec[0], (list, type(None))):
                noises.append(list(spec))
            else:
                noises.append([spec, spec])
    # match the copy's operations with the descriptor by position on the wires (the copy has new operation objects)
    pos = {id(o): i for i, o in enumerate(objs)}
    key_to_i = {k: pos[id(o)] for o, k in wire_keys(base)}
    objs2 = [None] * len(objs)
    for o, k in wire_keys(noisy):
        if k not in key_to_i:
            raise Violation(sub, "structure", "assign_noise", "plain", "the noisy copy has an operation the original does not have")
        i = key_to_i[k]
        d_new = gc.name_of(o)
        if d_new != desc["ops"][i] and list(d_new) != list(desc["ops"][i]):
            raise Violation(sub, "structure", "assign_noise", "plain", "operation %s became %s in the noisy copy" % (desc["ops"][i], d_new))
        objs2[i] = o
    if any(o is None for o in objs2):
        raise Violation(sub, "structure", "assign_noise", "plain", "the noisy copy lost an operation")
    cl, nontrivial, flat = classes(desc, noises)
    cl.append("via_map")
    asym = any(d[0] == "W" and nz is not None and [repr(x) for x in nz] != [repr(x) for x in nz][::-1] for d, nz in zip(desc["ops"], noises))
    if asym:
        cl.append("wrapper_asymmetric_noise")
    icls = "map:wrapper_asymmetric" if asym else "map:" + input_class(desc, noises, flat)
    return check_core(case, desc, noises, noisy, objs2, sub, icls, cl, nontrivial)


def spec_of_any(noise):
    if isinstance(noise, list):
        return any(spec_of(x) is not None for x in noise)
    return spec_of(noise) is not None


def check_core(case, desc, noises, circ, objs, sub, icls, cl, nontrivial):
    n = desc["ne"] + desc["np"]
    rho_ref, trace_ref, random_on_mixed = reference(desc, circ, objs=objs, noises=noises)
    if random_on_mixed:
        cl.append("random_measurement_on_mixed_state")
    # (a) density-matrix backend: physical and equal to the reference channel simulation
    sdm = compile_noisy(sub, icls, circ, "dm")
    rho = np.asarray(sdm.rep_data.data)
    if not np.all(np.isfinite(rho)):
        raise Violation(sub, "not-finite", "dm", icls, "density matrix has NaN / inf entries")
    if np.linalg.norm(rho - rho.conj().T) > 1e-9:
        raise Violation(sub, "not-hermitian", "dm", icls, "density matrix is not Hermitian")
    w = np.linalg.eigvalsh((rho + rho.conj().T) / 2)
    if w.min() < -1e-9:
        raise Violation(sub, "not-psd", "dm", icls, "smallest eigenvalue %.3g" % w.min())
    if abs(np.trace(rho).real - trace_ref) > 1e-9:
        raise Violation(sub, "trace", "dm", icls, "trace %.12g, product of survival probabilities %.12g" % (np.trace(rho).real, trace_ref))
    if np.linalg.norm(rho - rho_ref) > 1e-8:
        raise Violation(sub, "state-mismatch", "dm", icls, "density matrix differs from the reference channel simulation (%.3g)" % np.linalg.norm(rho - rho_ref))
    # (b) stabilizer mixture: same weight, same fidelity with pure stabilizer targets
    # (not comparable when a measurement with a random outcome acts on a mixed state: post-selection vs per-branch outcomes)
    if random_on_mixed:
        return Info(nontrivial=nontrivial, classes=cl)
    sst = compile_noisy(sub, icls, circ, "stab")
    mix = mixture_of(sst)
    total = sum(p for p, t in mix)
    if abs(total - trace_ref) > 1e-9:
        raise Violation(sub, "weight", "stab", icls, "total weight %.12g, density-matrix trace %.12g" % (total, trace_ref))
    for p, t in mix:
        probs = rp.clifford_tableau_problems(t)
        if probs:
            raise Violation(sub, "invalid-tableau", "stab", icls, "; ".join(probs))
    from graphiq.metrics import Infidelity
    from graphiq.state import QuantumState

    for tdesc in case["targets"]:
        S, D, tv = gs.present(dict(tdesc, n=n))
        want = float(np.real(np.vdot(tv, rho_ref @ tv)))
        got = 0.0
        for p, t in mix:
            ps = rp.stabilizer_paulis(t)
            # |<t|s>|^2 for the branch: project the target onto the branch's stabilizer group
            v = tv
            ov = None
            # overlap via dense: branch state vector = projection of a generic vector
            bv = branch_vector(ps, n)
            got += p * abs(np.vdot(tv, bv)) ** 2
        if abs(got - want) > 1e-8:
            raise Violation(sub, "fidelity-mismatch", "stab-vs-dm", icls, "sum p_i |<t|s_i>|^2 = %.10g, <t|rho|t> = %.10g" % (got, want))
        if trace_ref > 1e-12:
            target = QuantumState(gs.clifford_tableau(S, D, n), rep_type="s")
            metric = Infidelity(target)
            inf = guarded(sub, icls, metric.evaluate, sst, circ)
            if abs((1 - inf) - want) > 1e-8:
                raise Violation(sub, "infidelity-metric", "Infidelity(stab)", icls, "1 - infidelity = %.10g, reference %.10g" % (1 - inf, want))
            inf2 = guarded(sub, icls, metric.evaluate, sst, circ)
            if abs(inf2 - inf) > 1e-12:
                raise Violation(sub, "infidelity-metric", "Infidelity(stab)", icls, "second evaluation on the same state: %.10g, first %.10g" % (inf2, inf))
    # (b') the strength of every depolarizing model object is changed in place (a strength sweep on one circuit) and the circuit
    # compiled again by both backends: the results are those of the new strengths
    import copy as _copy

    noises2 = _copy.deepcopy(noises)
    changed = 0

    def walk(spec_holder, obj_holder):
        nonlocal changed
        for k, sp in enumerate(spec_holder):
            ob = obj_holder[k] if isinstance(obj_holder, list) else obj_holder
            if sp is not None and sp[0] == "depol" and type(ob).__name__ == "DepolarizingNoise":
                newp = float(sp[1]) / 2 if float(sp[1]) > 0 else 0.3
                sp[1] = newp
                ob.noise_parameters["Depolarizing probability"] = newp
                changed += 1
            elif sp is not None and sp[0] == "loss" and type(ob).__name__ == "PhotonLoss":
                newr = float(sp[1]) / 2 if float(sp[1]) > 0 else 0.25
                sp[1] = newr
                ob.noise_parameters["loss rate"] = newr
                changed += 1

    for i, nz in enumerate(noises2):
        if nz is None or objs[i] is None:
            continue
        ob = objs[i].noise
        if isinstance(nz, dict):
            walk([nz["whole"]], ob)
        elif isinstance(nz[0], (list, type(None))):
            walk(nz, ob if isinstance(ob, list) else [ob] * len(nz))
        else:
            walk([nz], ob)
    if changed and sub != "map":
        cl.append("strength_changed_in_place")
        rho_ref2, trace_ref2, rom2 = reference(desc, circ, objs=objs, noises=noises2)
        rho2 = np.asarray(compile_noisy(sub, icls, circ, "dm").rep_data.data)
        if abs(np.trace(rho2).real - trace_ref2) > 1e-9 or np.linalg.norm(rho2 - rho_ref2) > 1e-8:
            raise Violation(sub, "state-mismatch", "dm", icls + ":strength_changed_in_place",
                            "after changing the depolarizing probabilities of the same noise objects the density matrix is not that of the new strengths")
        if not rom2:
            mix2 = mixture_of(compile_noisy(sub, icls, circ, "stab"))
            if abs(sum(p for p, t in mix2) - trace_ref2) > 1e-9:
                raise Violation(sub, "weight", "stab", icls + ":strength_changed_in_place", "after an in-place strength change: total weight %.10g, expected %.10g" % (sum(p for p, t in mix2), trace_ref2))
            tv0 = gs.present(dict(case["targets"][0], n=n))[2]
            want2 = float(np.real(np.vdot(tv0, rho_ref2 @ tv0)))
            got2 = sum(p * abs(np.vdot(tv0, branch_vector(rp.stabilizer_paulis(t), n))) ** 2 for p, t in mix2)
            if abs(got2 - want2) > 1e-8:
                raise Violation(sub, "fidelity-mismatch", "stab-vs-dm", icls + ":strength_changed_in_place", "after an in-place strength change: %.10g vs %.10g" % (got2, want2))
    # (c) switches: noise simulation off reproduces the noiseless state
    rho0, _, _ = reference(desc, circ, noise_on=False, objs=objs, noises=noises)
    for backend in ("dm", "stab"):
        s_off = compile_noisy(sub, icls, circ, backend, noise_on=False)
        if backend == "dm":
            ok = np.linalg.norm(np.asarray(s_off.rep_data.data) - rho0) < 1e-9
        else:
            m = mixture_of(s_off)
            ok = len(m) == 1 and abs(m[0][0] - 1) < 1e-12 and np.linalg.norm(sv.dm(branch_vector(rp.stabilizer_paulis(m[0][1]), n)) - rho0) < 1e-8
        if not ok:
            raise Violation(sub, "switch-off", backend, icls, "noise_simulation=False does not reproduce the noiseless state")
    return Info(nontrivial=nontrivial, classes=cl)


def branch_vector(paulis, n):
    rng = np.random.default_rng(12345)
    v = rng.normal(size=2**n) + 1j * rng.normal(size=2**n)
    for p in paulis:
        v = v + rp.apply_to_vector(p, v, n)
    nv = np.linalg.norm(v)
    return v / nv


def check_zero(case, sub="zero"):
    """strength 0 everywhere / empty map through assign_noise reproduce the noiseless state exactly"""
    desc = case["circ"]
    n = desc["ne"] + desc["np"]
    noises = case["noises"]
    zero = []
    for nz in noises:
        def z(s):
            return None if s is None else ([s[0], 0.0, s[2]] if s[0] != "pauli" else ["pauli", 0, s[2]])
        if nz is None:
            zero.append(None)
        elif isinstance(nz, dict):
            zero.append({"whole": z(nz["whole"])})
        elif isinstance(nz[0], (list, type(None))):
            zero.append([z(s) for s in nz])
        else:
            zero.append(z(nz))
    circ = build_noisy(desc, zero)
    base = gc.build(desc)
    rho0, _, _ = reference(desc, base, noise_on=False)
    empty = guarded(sub, "empty_map", base.assign_noise, {"e": {}, "p": {}, "ee": {}, "ep": {}, "pe": {}, "pp": {}})
    for name, c in (("strength_zero", circ), ("empty_map", empty), ("no_noise_attached", base)):
        for backend in ("dm", "stab"):
            s = compile_noisy(sub, name, c, backend)
            if backend == "dm":
                ok = np.allclose(np.asarray(s.rep_data.data), rho0, atol=1e-12)
            else:
                m = mixture_of(s)
                tot = sum(p for p, t in m)
                vec = sum(p * sv.dm(branch_vector(rp.stabilizer_paulis(t), n)) for p, t in m)
                ok = abs(tot - 1) < 1e-12 and np.linalg.norm(vec - rho0) < 1e-8
            if not ok:
                raise Violation(sub, "zero-noise", backend, name, "%s does not reproduce the noiseless state" % name)
    return Info(nontrivial=any(d[0] in gc.TWO for d in desc["ops"]), classes=["zero"])


# ------------------------------------------------------------------------------------------- generators
STRENGTH = st.one_of(st.sampled_from([0.0, 1e-6, 0.1, 0.3, 0.75, 1 - 1e-9, 1.0]), st.floats(0, 1, allow_nan=False))


def st_spec():
    return st.one_of(
        st.tuples(st.just("depol"), STRENGTH, st.booleans()),
        st.tuples(st.just("pauli"), st.integers(0, 3), st.booleans()),
        st.tuples(st.just("loss"), STRENGTH, st.booleans()),
    ).map(list)


@st.composite
def st_case(draw, tier="quick"):
    maxq = 4 if tier == "quick" else 5
    nq = draw(st.integers(1, maxq))
    ne = draw(st.integers(0, nq))
    np_ = nq - ne
    nc = 1
    prefix = draw(st.lists(gc.st_op(ne, np_, nc), min_size=0, max_size=6)) if draw(st.booleans()) else []
    body = draw(st.lists(gc.st_op(ne, np_, nc, allow_measure=False), min_size=1, max_size=14))
    ops_ = prefix + body
    noises = [None] * len(prefix)
    n_dep = 0
    for d in body:
        if draw(st.integers(0, 2)) == 0:
            noises.append([None, None] if False else None)
            continue
        def spec():
            nonlocal n_dep
            s = draw(st.one_of(st.none(), st_spec()))
            if s is not None and s[0] == "depol":
                n_dep += 1
                if n_dep > 4:
                    return ["pauli", draw(st.integers(0, 3)), s[2]]
            return s
        if d[0] in gc.ONE:
            s = spec()
            noises.append(s)
        elif d[0] == "W" and draw(st.integers(0, 3)) == 0:
            w = spec()
            noises.append({"whole": w} if w is not None else None)
        elif d[0] == "W":
            lst = [spec() for _ in d[3]]
            noises.append(lst if any(x is not None for x in lst) else None)
        else:
            a, b = spec(), spec()
            noises.append([a, b] if (a is not None or b is not None) else None)
    targets = draw(st.lists(st.fixed_dictionaries({"word": gs.st_word(nq - 1, 8), "rowops": st.just([])}), min_size=1, max_size=3))
    return {"circ": {"ne": ne, "np": np_, "nc": nc, "ops": ops_}, "noises": noises, "targets": targets}


def check_blocks(case, sub="large"):
    """stabilizer backend on 30..44 qubits: the circuit is a tensor product of blocks of <= 3 photons, each with its own
    noise; total weight and fidelity with a product stabilizer target must equal the products of the per-block dense references"""
    blocks = case["blocks"]
    N = sum(b["circ"]["np"] for b in blocks)
    big_ops, big_noises, target = [], [], []
    want_w = want_f = 1.0
    off = 0
    n_dep = 0
    for b in blocks:
        desc, noises = b["circ"], b["noises"]
        nb = desc["np"]
        circ_b, objs_b = build_noisy(desc, noises, return_ops=True)
        rho_b, trace_b, _ = reference(desc, circ_b, objs=objs_b, noises=noises)
        # target of the block: its own noiseless output state, followed by the block's extra target word (a random product
        # target would make almost every product of fidelities zero)
        ps = rp.PauliSim(nb)
        run = gc.RefRun(desc)
        for d in gc.expand(desc["ops"]) + [[w[0], "p", w[1]] if len(w) == 2 else [w[0], "p", w[1], "p", w[2]] for w in b["target"]["word"]]:
            if d[0] == "I" or (len(gc.qregs(d)) == 2 and d[2] == d[4]):
                continue
            run.step(d, 0)
            if d[0] in gc.ONE:
                ps.gate1(d[0], d[2])
            elif d[0] == "CNOT":
                ps.cnot(d[2], d[4])
            else:
                ps.cz(d[2], d[4])
        S, tv = list(ps.stab), run.v
        want_w *= trace_b
        want_f *= float(np.real(np.vdot(tv, rho_b @ tv)))
        target += [(x << off, z << off, k) for x, z, k in S]
        for d in desc["ops"]:
            d = list(d)
            d[2] += off
            if len(gc.qregs(d)) == 2:
                d[4] += off
            big_ops.append(d)
        big_noises += list(noises)
        n_dep += sum(1 for nz in noises for s_ in (nz if (nz and isinstance(nz[0], (list, type(None)))) else [nz]) if s_ and s_[0] == "depol")
        off += nb
    desc_big = {"ne": 0, "np": N, "nc": 1, "ops": big_ops}
    circ = build_noisy(desc_big, big_noises)
    cl = ["qubits>=32"] if N >= 32 else []
    if n_dep:
        cl.append("kind:depol")
    sst = compile_noisy(sub, "blocks", circ, "stab")
    mix = mixture_of(sst)
    total = sum(p for p, t in mix)
    if abs(total - want_w) > 1e-9:
        raise Violation(sub, "weight", "stab", "blocks", "%d qubits: total weight %.12g, product of the blocks' survival probabilities %.12g" % (N, total, want_w))
    got = 0.0
    for p, t in mix:
        got += p * rp.stabilizer_overlap2(rp.stabilizer_paulis(t), target, N)
    if abs(got - want_f) > 1e-8:
        raise Violation(sub, "fidelity-mismatch", "stab-vs-blocks", "blocks",
                        "%d qubits: sum p_i |<t|s_i>|^2 = %.10g, product of the blocks' reference fidelities %.10g" % (N, got, want_f))
    return Info(nontrivial=(N >= 32 and n_dep >= 1), classes=cl)


@st.composite
def st_blocks(draw, tier="quick"):
    blocks = []
    total = 0
    goal = draw(st.integers(30, 44))
    dep_left = [3]
    while total < goal:
        nb = draw(st.integers(1, 3))
        noisy = draw(st.integers(0, 3)) == 0
        ops_ = draw(st.lists(gc.st_op(0, nb, 1, allow_measure=False), min_size=1, max_size=6))
        noises = []
        for d in ops_:
            def spec():
                s_ = draw(st.one_of(st.none(), st_spec())) if noisy else None
                if s_ is not None and s_[0] == "depol":
                    if dep_left[0] == 0:
                        return ["pauli", draw(st.integers(0, 3)), s_[2]]
                    dep_left[0] -= 1
                return s_
            if d[0] in gc.ONE:
                noises.append(spec())
            elif d[0] == "W":
                lst = [spec() for _ in d[3]]
                noises.append(lst if any(x is not None for x in lst) else None)
            else:
                a, b_ = spec(), spec()
                noises.append([a, b_] if (a is not None or b_ is not None) else None)
        blocks.append({"circ": {"ne": 0, "np": nb, "nc": 1, "ops": ops_}, "noises": noises,
                       "target": {"word": draw(gs.st_word(nb - 1, 2)) if draw(st.integers(0, 3)) == 0 else [], "rowops": []}})
        total += nb
    return {"blocks": blocks}


@st.composite
def st_map_case(draw, tier="quick"):
    maxq = 4 if tier == "quick" else 5
    nq = draw(st.integers(1, maxq))
    ne = draw(st.integers(0, nq))
    np_ = nq - ne
    prefix = draw(st.lists(gc.st_op(ne, np_, 1), min_size=0, max_size=5)) if draw(st.booleans()) else []
    body = draw(st.lists(gc.st_op(ne, np_, 1, allow_measure=False), min_size=1, max_size=14))
    # measuring operations only in the prefix; the map gives noise to gate names, so the prefix must not contain mapped gates:
    # keep only measuring operations and Hadamards there and leave Hadamard out of the map when a prefix exists
    prefix = [d for d in prefix if gc.measuring(d) or d[0] == "H"]
    names = [g for g in gc.ONE if not (prefix and g == "H")]
    budget = [3]

    def spec():
        s = draw(st_spec())
        if s[0] == "depol":
            if budget[0] == 0:
                return ["pauli", draw(st.integers(0, 3)), s[2]]
            budget[0] -= 1
        return s

    mp = {}
    for t in "ep":
        mp[t] = {g: spec() for g in draw(st.lists(st.sampled_from(names), max_size=3, unique=True))}
    for key in ("ee", "ep", "pe", "pp"):
        mp[key] = {}
        for g in draw(st.lists(st.sampled_from(gc.TWO), max_size=2, unique=True)):
            if draw(st.booleans()):
                a = spec() if draw(st.booleans()) else None
                mp[key][g] = [a, spec()] if draw(st.booleans()) else [spec(), a]
            else:
                mp[key][g] = spec()
    targets = draw(st.lists(st.fixed_dictionaries({"word": gs.st_word(nq - 1, 8), "rowops": st.just([])}), min_size=1, max_size=2))
    return {"circ": {"ne": ne, "np": np_, "nc": 1, "ops": prefix + body}, "map": mp, "targets": targets}


SUBS = [
    Sub("noisy", check, strategy=lambda tier: st_case(tier), n={"quick": 100, "thorough": 2000}, timeout={"quick": 120, "thorough": 300}),
    Sub("map", check_map, strategy=lambda tier: st_map_case(tier), n={"quick": 60, "thorough": 1500}, timeout={"quick": 120, "thorough": 300},
        doc="noise attached through CircuitDAG.assign_noise(map): the copy behaves as if every operation carried the model the map names for it"),
    Sub("large", check_blocks, strategy=lambda tier: st_blocks(tier), n={"quick": 12, "thorough": 300}, timeout={"quick": 120, "thorough": 300},
        doc="stabilizer backend on 30..44 photons: tensor product of noisy blocks of <= 3 qubits, weight and fidelity against the product of dense per-block references"),
    Sub("zero", check_zero, strategy=lambda tier: st_case(tier), n={"quick": 30, "thorough": 400}, timeout={"quick": 120, "thorough": 300}),
]
