"""C02 - the time-reversed solver returns a circuit that generates the target exactly."""
import numpy as np
from hypothesis import strategies as st

from ..core import Info, Violation, guarded
from ..engine import Sub
from ..gen import circuits as gc
from ..gen import graphs as gg
from ..gen import stab as gs
from ..ref import graphs as rg
from ..ref import pauli as rp
from ..ref import statevec as sv

ID = "C02"
RULE = (
    "target graphs: every labelled graph n<=4 (quick) / 5 (thorough) and class-balanced random graphs n<=8 / 10 with "
    "permuted / non-contiguous node labels, given as graph, stabilizer (graph form or random generating set with "
    "destabilizer mixing) or density-matrix QuantumState; compiler in {stabilizer, density matrix(<=8 qubits)} x "
    "measurement setting {0,1,probabilistic}. The returned circuit is simulated by the reference over EVERY combination "
    "of outcomes of its mid-circuit measurements. Non-trivial = >=2 emitters or a measure-and-reset followed by a further "
    "emission from the same emitter. Distinct = SHA-1 of the descriptor."
)
ASSUMPTIONS = ["dense reference simulator; photon i = i-th node of the graph in insertion order; tolerance 1e-9",
               "targets with an isolated vertex are a known finding (solver raises IndexError) and are counted as excluded"]
REQUIRED_CLASSES = {"lobes": ["emitters>=2", "mcr_then_emit", "branches>1"], "random": ["emitters>=2", "mcr_then_emit", "disconnected", "labels", "rep:g", "rep:s", "rep:sgen", "rep:dm",
                               "comp:dm", "comp:stab"]}


def circuit_ops(circ):
    out = []
    for op in circ.sequence():
        d = gc.name_of(op)
        if d is not None:
            out.append(d)
    return out


def all_branches(desc, ops, limit=256):
    """reference execution over every outcome combination; yields final vectors"""
    ops = gc.expand(ops)
    finals = []
    stack = [(0, gc.RefRun(desc))]
    while stack:
        i, ref = stack.pop()
        while i < len(ops):
            d = ops[i]
            if gc.measuring(d):
                mq = ref.q(d[1], d[2])
                p1 = sv.prob1(ref.v, ref.n, mq)
                if sv.TOL < p1 < 1 - sv.TOL:
                    other = gc.RefRun(desc, ref.v)
                    other.creg = list(ref.creg)
                    other.step(d, "follow", 1)
                    stack.append((i + 1, other))
                    ref.step(d, "follow", 0)
                else:
                    ref.step(d, "follow", 1 if p1 > 0.5 else 0)
            else:
                ref.step(d, 0)
            i += 1
        finals.append(ref.v)
        if len(finals) > limit:
            break
    return finals


def make_target(case):
    from graphiq.backends.stabilizer.functions.rep_conversion import get_clifford_tableau_from_graph
    from graphiq.state import QuantumState

    n, mask = case["n"], case["mask"]
    rep = case.get("rep", "s")
    g = gg.to_nx(case)
    if rep == "g":
        return QuantumState(g, rep_type="g")
    if rep == "s":
        return QuantumState(get_clifford_tableau_from_graph(g), rep_type="s")
    if rep == "sgen":
        word = [["H", q] for q in range(n)] + [["CZ", a, b] for a, b in rg.edges_from_mask(n, mask)]
        S, D, _ = gs.present({"n": n, "word": word, "rowops": case.get("rowops", [])}, dense=False)
        return QuantumState(gs.clifford_tableau(S, D, n), rep_type="s")
    if rep == "dm":
        return QuantumState(sv.dm(rg.graph_state(n, mask)), rep_type="dm")
    raise ValueError(rep)


def check(case, sub="solve"):
    from graphiq.backends.density_matrix.compiler import DensityMatrixCompiler
    from graphiq.backends.stabilizer.compiler import StabilizerCompiler
    from graphiq.metrics import Infidelity
    from graphiq.solvers.time_reversed_solver import TimeReversedSolver

    n, mask = case["n"], case["mask"]
    iso = rg.has_isolated(n, mask)
    icls = "has_isolated_vertex" if iso else "no_isolated_vertex"
    want_e = max(rg.cut_ranks(n, mask) + [0])
    compname = case.get("compiler", "stab")
    if compname == "dm" and n + want_e > 8:
        compname = "stab"
    det = case.get("det", 1)
    cl = gg.classes(n, mask) + ["rep:" + case.get("rep", "s"), "comp:" + compname, "det:%s" % det]
    if case.get("labels"):
        cl.append("labels")
    target = guarded(sub, icls, make_target, case)
    comp = StabilizerCompiler() if compname == "stab" else DensityMatrixCompiler()
    comp.measurement_determinism = det
    np.random.seed(case.get("seed", 0))
    metric = guarded(sub, icls, Infidelity, target=target)
    solver = guarded(sub, icls, TimeReversedSolver, target=target, metric=metric, compiler=comp)
    guarded(sub, icls, solver.solve)
    if case.get("seed", 0) % 3 == 0:
        # the same solver object asked again: the result examined below is that of the second call
        guarded(sub, icls + ":second_solve", solver.solve)
        cl.append("second_solve_on_same_object")
    score, circ = solver.result
    try:
        circ.validate()
    except Exception as e:
        raise Violation(sub, "invalid-circuit", "validate", icls, repr(e)[:200])
    if circ.n_photons != n:
        raise Violation(sub, "photon-count", "TimeReversedSolver", icls, "%s photons for %s vertices" % (circ.n_photons, n))
    ne = circ.n_emitters
    desc = {"ne": ne, "np": n, "nc": circ.n_classical, "ops": circuit_ops(circ)}
    want = np.kron(rg.graph_state(n, mask), sv.zero_state(ne))
    finals = all_branches(desc, desc["ops"])
    for k, v in enumerate(finals):
        if not sv.same_state(v, want):
            raise Violation(sub, "wrong-state", "TimeReversedSolver", icls,
                            "outcome branch %d of %d does not end in |G> x |0..0> (overlap %.4f)" % (
                                k, len(finals), sv.overlap2(v, want)))
    if not abs(float(score)) < 1e-9:
        raise Violation(sub, "score", "TimeReversedSolver", icls, "reported score %r, true infidelity 0" % (score,))
    # both graphiq backends on the returned circuit, all settings
    for bname, ccls in (("stab", StabilizerCompiler), ("dm", DensityMatrixCompiler)):
        if bname == "dm" and n + ne > 7:
            continue
        for d2 in (0, 1, "probabilistic"):
            c2 = ccls()
            c2.measurement_determinism = d2
            np.random.seed(case.get("seed", 0) + 1)
            state = guarded(sub, icls, c2.compile, circ)
            if bname == "stab":
                ok = rp.denotes(state.rep_data.tableau, want, n + ne)
            else:
                ok = np.linalg.norm(np.asarray(state.rep_data.data) - sv.dm(want)) < 1e-8
            if not ok:
                raise Violation(sub, "backend-state", bname, icls, "backend %s setting %s does not give |G> x |0..0>" % (bname, d2))
    # the target object edited in place (one CZ = one edge toggled): a new solver on the same object, and the old solver asked
    # again, must both answer for the target as it is now
    if case.get("rep", "s") == "s" and n >= 3 and case.get("seed", 0) % 4 == 1 and hasattr(target.rep_data, "apply_cz"):
        a_ = case.get("seed", 0) % n
        b_ = (a_ + 1 + (case.get("seed", 0) // n) % (n - 1)) % n
        mask2 = mask ^ (1 << rg.pairs(n).index((min(a_, b_), max(a_, b_))))
        if not rg.has_isolated(n, mask2):
            guarded(sub, icls + ":target_edited", target.rep_data.apply_cz, a_, b_)
            want_e2 = max(rg.cut_ranks(n, mask2) + [0])

            def verify_now(sv_solver, who):
                sc, c_ = sv_solver.result
                d_ = {"ne": c_.n_emitters, "np": n, "nc": c_.n_classical, "ops": circuit_ops(c_)}
                w_ = np.kron(rg.graph_state(n, mask2), sv.zero_state(c_.n_emitters))
                for v_ in all_branches(d_, d_["ops"]):
                    if not sv.same_state(v_, w_):
                        raise Violation(sub, "wrong-state", "TimeReversedSolver", icls + ":target_edited",
                                        "%s: after an in-place edit of the target object the circuit does not generate the target as it is now" % who)
                if not abs(float(sc)) < 1e-9:
                    raise Violation(sub, "score", "TimeReversedSolver", icls + ":target_edited", "%s: reported score %r" % (who, sc))

            solver2 = guarded(sub, icls + ":target_edited", TimeReversedSolver, target=target, metric=Infidelity(target=target), compiler=comp)
            if solver2.n_emitter != want_e2:
                raise Violation(sub, "emitter-count", "TimeReversedSolver", icls + ":target_edited",
                                "new solver on the edited target object allocates %s emitters, maximum cut rank %s" % (solver2.n_emitter, want_e2))
            guarded(sub, icls + ":target_edited", solver2.solve)
            verify_now(solver2, "new solver")
            if want_e2 <= solver.n_emitter:
                guarded(sub, icls + ":target_edited", solver.solve)
                verify_now(solver, "old solver asked again")
            cl.append("target_edited_in_place")
    # classes
    mcr_then_emit = False
    seen = set()
    for d in desc["ops"]:
        if d[0] == "MCR":
            seen.add((d[1], d[2]))
        elif d[0] == "CNOT" and d[3] == "p" and (d[1], d[2]) in seen:
            mcr_then_emit = True
    if ne >= 2:
        cl.append("emitters>=2")
    if mcr_then_emit:
        cl.append("mcr_then_emit")
    if len(finals) > 1:
        cl.append("branches>1")
    return Info(nontrivial=(ne >= 2 or mcr_then_emit), classes=cl)


CONFIG = st.fixed_dictionaries({
    "rep": st.sampled_from(["g", "s", "sgen", "dm"]),
    "compiler": st.sampled_from(["stab", "stab", "dm"]),
    "det": st.sampled_from([0, 1, "probabilistic"]),
    "seed": st.integers(0, 10**6),
    "rowops": gs.st_rowops(10, 8),
})


def strat_random(tier):
    mx = 8 if tier == "quick" else 10
    g = st.one_of(gg.st_graph(2, mx, labels=True, no_isolated=True), gg.st_graph(3, mx, labels=True, no_isolated=True),
                  gg.st_graph(4, mx, labels=True, no_isolated=True), gg.st_graph(1, mx, labels=True))
    return st.tuples(g, CONFIG).map(lambda t: dict(t[0], **t[1]))


def enum_small(tier, seed):
    rng = __import__("random").Random(seed)
    out = []
    for g in gg.all_graphs(4 if tier == "quick" else 5):
        for rep in (("g", "s", "sgen", "dm") if g["n"] <= 4 else (rng.choice(["g", "s", "sgen", "dm"]),)):
            n = g["n"]
            lab = list(range(n))
            if rng.random() < 0.5:
                rng.shuffle(lab)
            out.append(dict(g, labels=lab, rep=rep, compiler=rng.choice(["stab", "dm"]),
                            det=rng.choice([0, 1, "probabilistic"]), seed=rng.randrange(10**6),
                            rowops=[["mul", rng.randrange(n), rng.randrange(n)] for _ in range(3)]))
    return out, True


def strat_lobes(tier):
    g = gg.st_lobes(7, 10 if tier == "quick" else 12, labels=True)
    cfg = st.fixed_dictionaries({
        "rep": st.sampled_from(["g", "s", "sgen"]), "compiler": st.just("stab"), "det": st.sampled_from([0, 1, "probabilistic"]),
        "seed": st.integers(0, 10**6), "rowops": gs.st_rowops(11, 6),
    })
    return st.tuples(g, cfg).map(lambda t: dict(t[0], **t[1]))


SUBS = [
    Sub("small", check, enum=enum_small, doc="every labelled graph n<=4 x 4 target representations (n=5 in thorough, one rep each)"),
    Sub("random", check, strategy=strat_random, n={"quick": 80, "thorough": 600}, shrink=False),
    Sub("lobes", check, strategy=strat_lobes, n={"quick": 40, "thorough": 500}, shrink=False, timeout={"quick": 120, "thorough": 300},
        doc="7-12 vertex chains of small lobes joined by bridges: measure-and-reset on a busy emitter followed by re-use, >=2 emitters"),
]
