"""C04 - generated and mutated circuits respect the photonic emission constraints."""
import numpy as np
from hypothesis import strategies as st

from ..core import Info, Violation, guarded
from ..engine import Sub
from ..gen import circuits as gc
from ..gen import graphs as gg
from ..ref import graphs as rg
from . import c03, c16, c19

ID = "C04"
RULE = (
    "(i) circuits returned by TimeReversedSolver (all labelled graphs without isolated vertex n<=4/5, random and lobe-chain "
    "graphs n<=10) and by AlternateTargetSolver (connected n<=5, all orbit methods); (ii) histories of the evolutionary / "
    "hybrid mutation moves {add emitter gate, add emitter CNOT, replace photon gate, replace emitter gate, add photon gate, "
    "remove op, add measure-and-reset, randomize_circuit} with Hypothesis-drawn RNG seeds, from an initial circuit built by "
    "EvolutionarySolver.initialization or from a deterministic-solver circuit; (iii) every population member after every "
    "generation and every hall-of-fame circuit of full EvolutionarySolver / HybridEvolutionarySolver runs. Non-trivial = "
    "history with >= 1 successful two-qubit insertion and >= 1 removal after it. Distinct = SHA-1."
)
ASSUMPTIONS = ["the structural predicate is evaluated on per-register walks of the circuit (reg_gate_history) plus validate()",
               "'placed at initialisation' = operations labelled Fixed of type CNOT / MeasurementCNOTandReset in the start circuit, tracked as a "
               "multiset of (type, control, target) because moves copy circuits"]
REQUIRED_CLASSES = {"moves": ["start:init", "start:solver", "two_qubit_inserted", "removed", "mcr_inserted", "randomize", "idle_emitter_at_initialisation", "remove_op_with_node"]}

MOVES = ["add_emitter_one_qubit_op", "add_emitter_cnot", "replace_photon_one_qubit_op", "replace_emitter_one_qubit_op",
         "add_photon_one_qubit_op", "remove_op", "add_measurement_cnot_and_reset", "randomize_circuit", "remove_op_node"]


def fixed_signature(circ):
    sig = []
    for node in circ.node_dict.get("Fixed", []):
        op = circ.dag.nodes[node]["op"]
        d = gc.name_of(op)
        if d and d[0] in ("CNOT", "MCR"):
            sig.append(tuple(d[:5]))
    return sorted(sig)


def placed_signature(circ):
    """every emitter->photon CNOT and every measure-and-reset in the circuit, whatever its labels"""
    from collections import Counter

    sig = Counter()
    for op in circ.sequence():
        d = gc.name_of(op)
        if d and ((d[0] == "CNOT" and d[1] == "e" and d[3] == "p") or d[0] == "MCR"):
            sig[tuple(d[:5])] += 1
    return sig


def predicate(circ, sub, site, icls, what=""):
    def bad(kind, msg):
        raise Violation(sub, kind, site, icls, (what + ": " if what else "") + msg)

    try:
        circ.validate()
    except Exception as e:
        bad("invalid-circuit", "validate() raised %r" % (e,))
    import networkx as nx

    if not nx.is_directed_acyclic_graph(circ.dag):
        bad("invalid-circuit", "cycle")
    for op in circ.sequence():
        d = gc.name_of(op)
        if d is None:
            continue
        q = gc.qregs(d)
        if len(q) == 2 and q[0][0] == "p" and q[1][0] == "p":
            bad("photon-photon-gate", "two-qubit operation %s acts between two photons" % (d,))
    for p in range(circ.n_photons):
        ops_, _ = circ.reg_gate_history(p, "p")
        ds = [x for x in (gc.name_of(o) for o in ops_) if x is not None]
        if not ds:
            bad("photon-not-emitted", "photon %d has no operation" % p)
        first = ds[0]
        if not (first[0] == "CNOT" and first[1] == "e" and (first[3], first[4]) == ("p", p)):
            bad("emission-not-first", "photon %d starts with %s instead of its emission CNOT" % (p, first))
        for d in ds[1:]:
            if d[0] in gc.ONE or d[0] == "W":
                continue
            if d[0] in ("MCR", "CCNOT", "CCZ") and (d[3], d[4]) == ("p", p) and d[1] == "e":
                continue
            bad("photon-touched", "photon %d is touched after emission by %s" % (p, d))


def check_solver_output(case, sub="solver_outputs"):
    n, mask = case["n"], case["mask"]
    icls = case.get("kind", "time_reversed")
    cl = gg.classes(n, mask) + [icls]
    if icls == "time_reversed":
        solver = guarded(sub, icls, c03.solver_for_graph, case)
        guarded(sub, icls, solver.solve)
        circs = [solver.result[1]]
    else:
        from graphiq.solvers.alternate_target_solver import AlternateTargetSolver, AlternateTargetSolverSetting
        import warnings

        np.random.seed(case.get("seed", 0))
        setting = AlternateTargetSolverSetting(n_iso_graphs=case.get("n_iso", 2), n_lc_graphs=case.get("n_lc", 2),
                                               lc_method=case.get("method"), lc_orbit_depth=case.get("depth"))
        solver = guarded(sub, icls, AlternateTargetSolver, target=rg.to_nx(n, mask), solver_setting=setting, seed=case.get("seed", 0))
        with warnings.catch_warnings():
            warnings.simplefilter("ignore")
            res = guarded(sub, icls, solver.solve)
        circs = [c for c, info in res]
    for c in circs:
        predicate(c, sub, icls, "plain")
        if c.n_photons != n:
            raise Violation(sub, "photon-count", icls, "plain", "%d photons for %d vertices" % (c.n_photons, n))
    return Info(nontrivial=(circs[0].n_emitters >= 2), classes=cl)


def check_moves(case, sub="moves"):
    import warnings

    start = case["start"]
    cl = {"start:" + start}
    np.random.seed(case["seed"])
    solver, comp, metric = c19.build_solver({"n": case["n"], "mask": case["mask"], "solver": "hybrid" if start == "solver" else "evolutionary",
                                             "ne": case["ne"], "n_pop": 1, "n_stop": 1, "n_hof": 1})
    if start == "init":
        if case.get("ea") is not None:
            # assignments drawn by the generator: any emitter per photon (emitters may stay idle), any photon per emitter
            ea = [x % case["ne"] for x in case["ea"]][: case["n"]] + [0] * max(0, case["n"] - len(case["ea"]))
            ma = [x % case["n"] for x in case["ma"]][: case["ne"]] + [0] * max(0, case["ne"] - len(case["ma"]))
            if len(set(ea)) < case["ne"]:
                cl.add("idle_emitter_at_initialisation")
        else:
            ea = guarded(sub, "init", solver.get_emission_assignment, case["n"], case["ne"])
            ma = guarded(sub, "init", solver.get_measurement_assignment, case["n"], case["ne"])
        circ = guarded(sub, "init", solver.initialization, ea, ma)
    else:
        det = guarded(sub, "init", c03.solver_for_graph, case)
        guarded(sub, "init", det.solve)
        circ = det.result[1]
    predicate(circ, sub, "initial", start, "start circuit")
    fixed0 = fixed_signature(circ)
    # an initialisation circuit consists of the emission CNOTs, the measure-and-resets and one-qubit gates: all of the former
    # were "placed at initialisation", labelled or not
    placed0 = placed_signature(circ) if start == "init" else None
    inserted2 = removed_after = False
    nontrivial = False
    for name, seed in case["moves"]:
        if name == "add_emitter_cnot" and solver.n_emitter < 2:
            continue
        np.random.seed(seed)
        before = gc_nodes(circ)
        with warnings.catch_warnings():
            warnings.simplefilter("ignore")
            if name == "remove_op_node":
                # the optional `node` argument: the caller names the node; operations labelled Fixed must still survive
                ids = sorted(gc_nodes(circ), key=str)
                if ids:
                    guarded(sub, name, solver.remove_op, circ, ids[seed % len(ids)])
                    cl.add("remove_op_with_node")
            elif name == "randomize_circuit":
                if not hasattr(solver, "randomize_circuit"):
                    continue
                circ = guarded(sub, name, solver.randomize_circuit, circ)
                cl.add("randomize")
            else:
                guarded(sub, name, getattr(solver, name), circ)
        after = gc_nodes(circ)
        predicate(circ, sub, name, start, "after %s(seed %d)" % (name, seed))
        if fixed_signature(circ) != fixed0:
            raise Violation(sub, "fixed-removed", name, start, "emission CNOTs / measure-and-resets placed at initialisation changed: %s -> %s" % (
                fixed0, fixed_signature(circ)))
        if placed0 is not None:
            now = placed_signature(circ)
            lost = [k for k, v in placed0.items() if now.get(k, 0) < v]
            if lost:
                raise Violation(sub, "fixed-removed", name, start, "operation(s) placed at initialisation are gone: %s" % (lost,))
        if name in ("add_emitter_cnot", "add_measurement_cnot_and_reset") and len(after) > len(before):
            inserted2 = True
            cl.add("two_qubit_inserted")
            if name == "add_measurement_cnot_and_reset":
                cl.add("mcr_inserted")
        if name == "remove_op" and len(after) < len(before):
            cl.add("removed")
            if inserted2:
                nontrivial = True
    return Info(nontrivial=nontrivial, classes=sorted(cl))


def gc_nodes(circ):
    return [x for x in circ.dag.nodes if not str(x).endswith(("_in", "_out"))]


def check_full_run(case, sub="runs"):
    import warnings

    icls = case["solver"]
    solver, comp, metric = c19.build_solver(case)
    seen = []
    orig = solver.update_hof

    def spy(population, *args, **kwargs):
        for score, c in population:
            predicate(c, sub, "population", icls, "population member")
        orig(population, *args, **kwargs)

    solver.update_hof = spy
    solver.seed(case["seed"])
    with warnings.catch_warnings():
        warnings.simplefilter("ignore")
        guarded(sub, icls, solver.solve)
    for s, c in solver.hof:
        if c is not None:
            predicate(c, sub, "hall-of-fame", icls, "hall-of-fame circuit")
    return Info(nontrivial=True, classes=[icls])


def enum_solver_outputs(tier, seed):
    rng = __import__("random").Random(seed)
    out = [dict(g, kind="time_reversed") for g in gg.all_graphs(4 if tier == "quick" else 5, no_isolated=True)]
    for g in gg.all_graphs(4, connected=True):
        if g["n"] >= 3:
            out.append(dict(g, kind="alternate", method=rng.choice([None, "lc_with_iso", "random", "depth_first"]), n_iso=rng.randint(1, 3),
                            n_lc=rng.randint(1, 3), depth=rng.choice([None, 1, 2]), seed=rng.randrange(1000)))
    return out, True


def strat_solver_outputs(tier):
    a = gg.st_graph(5, 8 if tier == "quick" else 10, no_isolated=True).map(lambda g: dict(g, kind="time_reversed"))
    b = gg.st_lobes(7, 10).map(lambda g: dict(g, kind="time_reversed"))
    c = st.tuples(gg.st_graph(3, 5, connected=True), st.sampled_from(c16 and [None, "lc_with_iso", "random", "random_with_iso", "random_with_rep"]),
                  st.integers(1, 3), st.integers(1, 3), st.integers(0, 999)).map(
        lambda t: dict(t[0], kind="alternate", method=t[1], n_iso=t[2], n_lc=t[3], seed=t[4]))
    return st.one_of(a, b, c)


def strat_moves(tier):
    L = 30 if tier == "quick" else 80
    mv = st.lists(st.tuples(st.sampled_from(MOVES), st.integers(0, 2**31 - 1)).map(list), min_size=1, max_size=L)
    asg = st.one_of(st.none(), st.lists(st.integers(0, 5), min_size=5, max_size=5))
    init = st.fixed_dictionaries({"start": st.just("init"), "n": st.integers(1, 5), "mask": st.just(0), "ne": st.integers(1, 3),
                                  "seed": st.integers(0, 10**6), "moves": mv, "ea": asg, "ma": st.lists(st.integers(0, 5), min_size=3, max_size=3)})
    sol = st.tuples(gg.st_graph(2, 6, no_isolated=True), st.integers(0, 10**6), mv).map(
        lambda t: dict(t[0], start="solver", ne=1, seed=t[1], moves=t[2]))
    return st.one_of(init, sol)


def fix_init(case):
    # the evolutionary solver needs a target of the right size: use a path graph on n vertices
    if case["start"] == "init":
        case = dict(case, mask=gg.named(case["n"], "path") if case["n"] >= 2 else 0)
        if case["n"] < 2:
            case = dict(case, n=2, mask=1)
        if case.get("ea") is None:
            case["ne"] = min(case["ne"], case["n"])
    return case


SUBS = [
    Sub("solver_outputs", check_solver_output, enum=enum_solver_outputs, timeout={"quick": 120, "thorough": 300}),
    Sub("solver_outputs_random", lambda c: check_solver_output(c, "solver_outputs"), strategy=strat_solver_outputs,
        n={"quick": 12, "thorough": 250}, shrink=False, timeout={"quick": 120, "thorough": 300}),
    Sub("moves", lambda c: check_moves(fix_init(c)), strategy=strat_moves, n={"quick": 40, "thorough": 700}, timeout={"quick": 120, "thorough": 300}),
    Sub("runs", check_full_run, strategy=lambda tier: c19.st_case(), n={"quick": 4, "thorough": 60}, shrink=False,
        timeout={"quick": 300, "thorough": 600}),
]
