"""C15 - circuits reported equal are equivalent; de-duplication keeps every distinct one."""
import itertools

import numpy as np
from hypothesis import strategies as st

from ..core import Info, Violation, guarded
from ..engine import Sub
from ..gen import circuits as gc
from ..ref import statevec as sv

ID = "C15"
RULE = (
    "pairs (c1, c2) on the same registers built as base circuit + edit script: semantics-preserving edits (copy, wrap / unwrap "
    "runs of one-qubit gates, insert identities, another linearisation of the same wires) and single semantics-changing "
    "edits (swap control/target, change one gate kind, swap two adjacent non-commuting operations, retarget to another "
    "register of the same type, rename registers of one type, change a classical register), plus independent pairs; methods "
    "direct, is_isomorphic and (tiny circuits) GED_full / GED_approximate / GED_adaptive; lists of 2-7 such circuits for "
    "remove_redundant_circuits, check_redundant_circuit and CircuitStorage. Equivalence oracle: identical register counts and "
    "identical final state in EVERY measurement-outcome branch (branches keyed by measured wire and occurrence), for "
    "is_isomorphic up to a permutation of emitters and of photons. Non-trivial = pair reported equal that is not a plain "
    "copy, or pair with exactly one semantics-changing edit. Distinct = SHA-1."
)
ASSUMPTIONS = ["dense reference; two circuits are equivalent iff they have the same registers and the same (unnormalised) state in every "
               "outcome branch, which does not depend on the forced-outcome convention or on the order of commuting measurements"]
REQUIRED_CLASSES = {"pairs": ["compared_again_after_replace_op", "edit:copy", "edit:rewrap", "edit:identities", "edit:relinearise", "edit:swap_ct", "edit:gate_kind",
                              "edit:swap_adjacent", "edit:swap_two_qubit_order", "edit:retarget", "edit:rename", "reported_equal_noncopy", "iso_equal_direct_unequal"]}

METHODS = ["direct", "is_isomorphic"]


def branch_table(desc, limit=128):
    """{outcome key: unnormalised final vector}; key = sorted tuple of ((wire type, reg, occurrence), outcome)"""
    ops_ = gc.expand(desc["ops"])
    out = {}
    stack = [(0, gc.RefRun(desc), 1.0, (), {})]
    while stack:
        i, ref, amp, key, occ = stack.pop()
        occ = dict(occ)
        while i < len(ops_):
            d = ops_[i]
            if gc.measuring(d):
                w = (d[1], d[2])
                k = occ.get(w, 0)
                occ[w] = k + 1
                mq = ref.q(d[1], d[2])
                p1 = sv.prob1(ref.v, ref.n, mq)
                if sv.TOL < p1 < 1 - sv.TOL:
                    other = gc.RefRun(desc, ref.v)
                    other.step(d, "follow", 1)
                    stack.append((i + 1, other, amp * np.sqrt(p1), key + ((w + (k,), 1),), dict(occ)))  # a copy: this branch goes on counting
                    ref.step(d, "follow", 0)
                    amp *= np.sqrt(1 - p1)
                    key += ((w + (k,), 0),)
                else:
                    o = 1 if p1 > 0.5 else 0
                    ref.step(d, "follow", o)
                    key += ((w + (k,), o),)
            else:
                ref.step(d, 0)
            i += 1
        out[tuple(sorted(key))] = ref.v * amp
        if len(out) > limit:
            break
    return out


def permute_desc(desc, pe, pp):
    """rename emitter i -> pe[i], photon i -> pp[i]"""
    def m(t, r):
        return pe[r] if t == "e" else pp[r]
    ops_ = []
    for d in desc["ops"]:
        d = list(d)
        d[2] = m(d[1], d[2])
        if len(gc.qregs(d)) == 2:
            d[4] = m(d[3], d[4])
        ops_.append(d)
    return dict(desc, ops=ops_)


def tables_equal(t1, t2):
    if set(t1) != set(t2):
        return False
    for k in t1:
        a, b = t1[k], t2[k]
        na, nb = np.vdot(a, a).real, np.vdot(b, b).real
        if abs(na - nb) > 1e-8 or abs(abs(np.vdot(a, b)) - na) > 1e-8:
            return False
    return True


def equivalent(d1, d2, up_to_renaming=False):
    if (d1["ne"], d1["np"]) != (d2["ne"], d2["np"]):
        return False
    if not up_to_renaming and d1["nc"] != d2["nc"]:
        return False
    t1 = branch_table(d1)
    if not up_to_renaming:
        return tables_equal(t1, branch_table(d2))
    for pe in itertools.permutations(range(d1["ne"])):
        for pp in itertools.permutations(range(d1["np"])):
            if tables_equal(t1, branch_table(permute_desc(d2, pe, pp))):
                return True
    return False


# ------------------------------------------------------------------------------------------- edit scripts
def apply_edit(desc, edit):
    """returns (new descriptor, preserves_semantics or None if unknown, kind)"""
    ops_ = [list(d) for d in desc["ops"]]
    kind = edit[0]
    n = len(ops_)
    d2 = dict(desc)
    if kind == "copy" or n == 0:
        return dict(desc, ops=ops_), "copy"
    i = edit[1] % n
    if kind == "rewrap":
        # expand wrappers / merge a run of one-qubit gates on one register into a wrapper
        d = ops_[i]
        if d[0] == "W":
            ops_[i: i + 1] = [[g, d[1], d[2]] for g in reversed(d[3])]
        elif d[0] in gc.ONE:
            j = i
            run = []
            while j < n and ops_[j][0] in gc.ONE and ops_[j][1:3] == d[1:3]:
                run.append(ops_[j][0])
                j += 1
            ops_[i:j] = [["W", d[1], d[2], list(reversed(run))]]
        return dict(desc, ops=ops_), "rewrap"
    if kind == "identities":
        t, r = gc.qregs(ops_[i])[0]
        ops_.insert(i, ["I", t, r])
        if edit[2] % 2:
            ops_.insert(i, ["W", t, r, ["I", "I"]])
        return dict(desc, ops=ops_), "identities"
    if kind == "relinearise":
        for k in range(n - 1):
            j = (i + k) % (n - 1)
            a, b = ops_[j], ops_[j + 1]
            if not (set(gc.qregs(a)) & set(gc.qregs(b))) and not (set(gc.cregs(a)) & set(gc.cregs(b))):
                ops_[j], ops_[j + 1] = b, a
                break
        return dict(desc, ops=ops_), "relinearise"
    if kind == "swap_ct":
        for k in range(n):
            d = ops_[(i + k) % n]
            if len(gc.qregs(d)) == 2:
                d[1], d[2], d[3], d[4] = d[3], d[4], d[1], d[2]
                break
        return dict(desc, ops=ops_), "swap_ct"
    if kind == "gate_kind":
        d = ops_[i]
        if d[0] in gc.ONE:
            d[0] = gc.ONE[(gc.ONE.index(d[0]) + 1 + edit[2] % 6) % 7]
        elif d[0] in gc.TWO:
            d[0] = gc.TWO[1 - gc.TWO.index(d[0])]
        elif d[0] in gc.CC:
            d[0] = gc.CC[(gc.CC.index(d[0]) + 1 + edit[2] % 2) % 3]
        return dict(desc, ops=ops_), "gate_kind"
    if kind == "swap_adjacent":
        for k in range(n - 1):
            j = (i + k) % (n - 1)
            a, b = ops_[j], ops_[j + 1]
            if set(gc.qregs(a)) & set(gc.qregs(b)):
                ops_[j], ops_[j + 1] = b, a
                break
        return dict(desc, ops=ops_), "swap_adjacent"
    if kind == "swap_two_qubit_order":
        # two multi-register operations that share exactly one wire (different partner registers): exchange their order
        for k in range(n):
            a = (i + k) % n
            if len(gc.qregs(ops_[a])) != 2:
                continue
            for b in range(a + 1, n):
                if len(gc.qregs(ops_[b])) != 2:
                    continue
                shared = set(gc.qregs(ops_[a])) & set(gc.qregs(ops_[b]))
                between = [c for c in range(a + 1, b) if set(gc.qregs(ops_[c])) & (set(gc.qregs(ops_[a])) | set(gc.qregs(ops_[b])))]
                if len(shared) == 1 and not between:
                    x = ops_.pop(b)
                    ops_.insert(a, x)
                    return dict(desc, ops=ops_), "swap_two_qubit_order"
        return dict(desc, ops=ops_), "swap_two_qubit_order"
    if kind == "retarget":
        d = ops_[i]
        t = d[1]
        cnt = desc["ne"] if t == "e" else desc["np"]
        if cnt >= 2:
            new = (d[2] + 1 + edit[2] % (cnt - 1)) % cnt
            if not (len(gc.qregs(d)) == 2 and (d[3], d[4]) == (t, new)):
                d[2] = new
        return dict(desc, ops=ops_), "retarget"
    if kind == "rename":
        t = "e" if edit[2] % 2 else "p"
        cnt = desc["ne"] if t == "e" else desc["np"]
        perm = list(range(cnt))
        if cnt >= 2:
            a = edit[1] % cnt
            b = (a + 1 + edit[2] % (cnt - 1)) % cnt
            perm[a], perm[b] = perm[b], perm[a]
        pe = perm if t == "e" else list(range(desc["ne"]))
        pp = perm if t == "p" else list(range(desc["np"]))
        return permute_desc(dict(desc, ops=ops_), pe, pp), "rename"
    if kind == "creg":
        for k in range(n):
            d = ops_[(i + k) % n]
            if gc.cregs(d) and desc["nc"] >= 2:
                idx = 5 if d[0] in gc.CC else 3
                d[idx] = (d[idx] + 1) % desc["nc"]
                break
        return dict(desc, ops=ops_), "creg"
    raise ValueError(kind)


def valid(desc):
    for d in desc["ops"]:
        q = gc.qregs(d)
        if len(q) == 2 and q[0] == q[1]:
            return False
    return True


def check_pair(case, sub="pairs"):
    from graphiq.utils.circuit_comparison import compare_circuits

    d1 = case["base"]
    cl = []
    if case.get("other") is not None:
        d2 = case["other"]
        kinds = ["independent"]
    else:
        d2 = d1
        kinds = []
        for e in case["edits"]:
            nd, k = apply_edit(d2, e)
            if valid(nd):
                d2 = nd
                kinds.append(k)
    cl += ["edit:" + k for k in kinds]
    c1, c2 = gc.build(d1), gc.build(d2)
    q1, q2 = c1.to_openqasm(), c2.to_openqasm()
    eq_exact = equivalent(d1, d2)
    eq_iso = eq_exact or equivalent(d1, d2, up_to_renaming=True)
    preserving = all(k in ("copy", "rewrap", "identities", "relinearise") for k in kinds)
    res = {}
    for method in case.get("methods", METHODS):
        icls = "+".join(sorted(set(kinds))) or "copy"
        r12 = guarded(sub, icls, compare_circuits, c1, c2, method=method)
        r21 = guarded(sub, icls, compare_circuits, c2, c1, method=method)
        res[method] = bool(r12)
        if bool(r12) != bool(r21):
            raise Violation(sub, "asymmetric", method, icls, "compare(a,b)=%s, compare(b,a)=%s" % (r12, r21))
        truth = eq_iso if method == "is_isomorphic" else eq_exact
        if r12 and not truth:
            raise Violation(sub, "unsound", method, icls,
                            "reported equal, but the circuits are inequivalent%s" % (" under every renaming of registers" if method == "is_isomorphic" else ""))
        if preserving and kinds != ["independent"] and not r12:
            # GED_approximate takes the first candidate of networkx' anytime search: all its false "different" answers on
            # equivalent circuits are one root cause, whatever the edit was -> one input class
            raise Violation(sub, "wrapping-sensitive", method, "semantics_preserving_edit" if method == "GED_approximate" else icls,
                            "circuits differing only by %s compare unequal" % (kinds,))
        rc = guarded(sub, icls, compare_circuits, c1, c1.copy(), method=method)
        if not rc:
            raise Violation(sub, "not-reflexive", method, icls, "a circuit compares unequal to its copy")
    if c1.to_openqasm() != q1 or c2.to_openqasm() != q2:
        raise Violation(sub, "argument-mutated", "compare_circuits", "plain", "comparison changed a circuit")
    # after all these comparisons c1 still compares equal to an independent fresh build of the same operations
    c1_fresh = gc.build(d1)
    for method in [m_ for m_ in case.get("methods", METHODS) if not m_.startswith("GED")]:
        if not guarded(sub, "fresh_build", compare_circuits, c1, c1_fresh, method=method):
            raise Violation(sub, "not-reflexive", method, "fresh_build", "a circuit that took part in earlier comparisons compares unequal to a fresh build of the same operations")
    # a circuit that has been compared is edited in place (one gate replaced on its node) and compared again: the answers must
    # be about the circuit as it is now
    c2b, objs2 = gc.build(d2, return_ops=True)
    for method in [m_ for m_ in case.get("methods", METHODS) if not m_.startswith("GED")]:
        guarded(sub, "edited_in_place", compare_circuits, c1, c2b, method=method)
    idx = [i for i, d in enumerate(d2["ops"]) if d[0] in ("H", "P", "X", "Z")]
    if idx and "GED_full" not in case.get("methods", METHODS)[:1]:
        i = idx[case.get("edit_pick", 0) % len(idx)]
        nid = [x for x in c2b.dag.nodes if c2b.dag.nodes[x].get("op") is objs2[i]]
        if len(nid) == 1:
            d = d2["ops"][i]
            nd = [{"H": "P", "P": "H", "X": "Z", "Z": "X"}[d[0]], d[1], d[2]]
            d3 = dict(d2, ops=[list(x) for x in d2["ops"][:i]] + [nd] + [list(x) for x in d2["ops"][i + 1:]])
            guarded(sub, "edited_in_place", c2b.replace_op, nid[0], gc.make_op(nd))
            fresh_new, fresh_old = gc.build(d3), gc.build(d2)
            same_old = equivalent(d3, d2)
            same_old_iso = same_old or equivalent(d3, d2, up_to_renaming=True)
            for method in [m_ for m_ in case.get("methods", METHODS) if not m_.startswith("GED")]:
                r_new = guarded(sub, "edited_in_place", compare_circuits, c2b, fresh_new, method=method)
                r_old = guarded(sub, "edited_in_place", compare_circuits, c2b, fresh_old, method=method)
                if not r_new:
                    raise Violation(sub, "not-reflexive", method, "edited_in_place",
                                    "after replace_op the circuit compares unequal to a freshly built circuit with the same operations")
                if r_old and not (same_old_iso if method == "is_isomorphic" else same_old):
                    raise Violation(sub, "unsound", method, "edited_in_place",
                                    "after replace_op the circuit still compares equal to its old content, which is inequivalent")
            cl.append("compared_again_after_replace_op")
    noncopy = any(k not in ("copy",) for k in kinds)
    if any(res.values()) and noncopy:
        cl.append("reported_equal_noncopy")
    if res.get("is_isomorphic") and not res.get("direct", True):
        cl.append("iso_equal_direct_unequal")
    changing = [k for k in kinds if k in ("swap_ct", "gate_kind", "swap_adjacent", "swap_two_qubit_order", "retarget", "rename", "creg")]
    nontrivial = (any(res.values()) and noncopy) or len(changing) == 1
    return Info(nontrivial=nontrivial, classes=cl)


def check_list(case, sub="lists"):
    from graphiq.utils.circuit_comparison import CircuitStorage, check_redundant_circuit, remove_redundant_circuits

    descs = [case["base"]]
    for script in case["scripts"]:
        d = case["base"]
        for e in script:
            nd, k = apply_edit(d, e)
            if valid(nd):
                d = nd
        descs.append(d)
    circs = [gc.build(d) for d in descs]
    texts = [c.to_openqasm() for c in circs]
    kept = guarded(sub, "plain", remove_redundant_circuits, list(circs))
    idx = []
    it = iter(range(len(circs)))
    for k in kept:
        found = None
        for j in it:
            if circs[j] is k:
                found = j
                break
        if found is None:
            raise Violation(sub, "not-sublist", "remove_redundant_circuits", "plain", "kept list is not a sub-list of the input in order")
        idx.append(found)
    for j, d in enumerate(descs):
        if j in idx:
            continue
        if not any(equivalent(descs[i], d, up_to_renaming=True) for i in idx):
            raise Violation(sub, "dropped-distinct", "remove_redundant_circuits", "plain",
                            "circuit %d was dropped although it is inequivalent (under every renaming) to every kept circuit" % j)
    if [c.to_openqasm() for c in circs] != texts:
        raise Violation(sub, "argument-mutated", "remove_redundant_circuits", "plain", "input circuits changed")
    store = CircuitStorage()
    stored = []
    for j, c in enumerate(circs):
        ok = guarded(sub, "plain", store.add_new_circuit, c)
        if ok:
            stored.append(j)
        elif not any(equivalent(descs[i], descs[j]) for i in stored):
            raise Violation(sub, "dropped-distinct", "CircuitStorage", "plain", "circuit %d refused although inequivalent to every stored circuit" % j)
    r = guarded(sub, "plain", check_redundant_circuit, circs[0], circs[-1])
    if r and not equivalent(descs[0], descs[-1]):
        raise Violation(sub, "unsound", "check_redundant_circuit", "plain", "reported redundant but inequivalent")
    cl = ["dropped>=1"] if len(kept) < len(circs) else []
    return Info(nontrivial=len(kept) < len(circs), classes=cl)


EDIT = st.tuples(st.sampled_from(["copy", "rewrap", "rewrap", "identities", "relinearise", "swap_ct", "gate_kind", "swap_adjacent",
                                  "swap_two_qubit_order", "swap_two_qubit_order", "retarget", "rename", "creg"]), st.integers(0, 63), st.integers(0, 63)).map(list)


@st.composite
def st_small_circuit(draw, max_q=4, max_len=12):
    ne = draw(st.integers(1, max(1, max_q - 1)))
    np_ = draw(st.integers(1, max_q - ne)) if max_q - ne >= 1 else 1
    nc = draw(st.integers(1, 2))
    ops_ = draw(st.lists(gc.st_op(ne, np_, nc), min_size=1, max_size=max_len))
    # at most 5 measuring operations (branch enumeration)
    cnt = 0
    keep = []
    for d in ops_:
        if gc.measuring(d):
            cnt += 1
            if cnt > 5:
                continue
        keep.append(d)
    return {"ne": ne, "np": np_, "nc": nc, "ops": keep}


@st.composite
def st_entangling_circuit(draw):
    """3-4 quantum registers, mostly two-register operations with a few Hadamards"""
    ne = draw(st.integers(1, 3))
    np_ = draw(st.integers(max(1, 3 - ne), 4 - ne)) if 4 - ne >= 1 else 1
    regs = [("e", i) for i in range(ne)] + [("p", i) for i in range(np_)]
    ops_ = [["H", t, r] for t, r in regs if draw(st.booleans())]
    for _ in range(draw(st.integers(2, 6))):
        a = draw(st.integers(0, len(regs) - 1))
        b = draw(st.integers(0, len(regs) - 2))
        if b >= a:
            b += 1
        ops_.append([draw(st.sampled_from(["CNOT", "CNOT", "CZ"])), regs[a][0], regs[a][1], regs[b][0], regs[b][1]])
        if draw(st.integers(0, 3)) == 0:
            t, r = draw(st.sampled_from(regs))
            ops_.append([draw(st.sampled_from(gc.ONE)), t, r])
    return {"ne": ne, "np": np_, "nc": 1, "ops": ops_}


def strat_pairs(tier):
    base = st.one_of(st_small_circuit(), st_entangling_circuit())
    edited = st.fixed_dictionaries({"base": base, "edits": st.lists(EDIT, min_size=0, max_size=3), "other": st.none()})
    single = st.fixed_dictionaries({"base": base, "edits": st.lists(EDIT, min_size=1, max_size=1), "other": st.none()})
    indep = st.tuples(base, st.data()).map(lambda t: t[0]).flatmap(
        lambda b: st.fixed_dictionaries({"base": st.just(b), "edits": st.just([]),
                                         "other": st.lists(gc.st_op(b["ne"], b["np"], b["nc"]), min_size=0, max_size=6).map(
                                             lambda o: dict(b, ops=[d for d in o][:6]))}))
    return st.one_of(edited, single, single, edited)


def strat_ged(tier):
    base = st_small_circuit(max_q=2, max_len=2 if tier == "quick" else 3)
    return st.fixed_dictionaries({"base": base, "edits": st.lists(EDIT, min_size=0, max_size=2), "other": st.none(),
                                  "methods": st.just(["GED_full", "GED_approximate", "GED_adaptive"])})


def strat_lists(tier):
    return st.fixed_dictionaries({"base": st_small_circuit(max_q=3, max_len=8),
                                  "scripts": st.lists(st.lists(EDIT, min_size=0, max_size=2), min_size=1, max_size=6)})


SUBS = [
    Sub("pairs", check_pair, strategy=strat_pairs, n={"quick": 120, "thorough": 3000}, timeout={"quick": 120, "thorough": 300}),
    Sub("ged", lambda c: check_pair(c, "ged"), strategy=strat_ged, n={"quick": 2, "thorough": 60}, timeout={"quick": 200, "thorough": 400},
        doc="graph-edit-distance methods on tiny circuits (<=3 operations on 2 qubits)"),
    Sub("lists", check_list, strategy=strat_lists, n={"quick": 40, "thorough": 800}, timeout={"quick": 120, "thorough": 300}),
]
