"""fresh-interpreter worker for C14: exports a batch of circuits and prints the texts' digests as JSON"""
import hashlib
import json
import os
import sys


def main():
    case = json.loads(sys.stdin.read())
    devnull = os.open(os.devnull, os.O_WRONLY)
    saved = os.dup(1)
    os.dup2(devnull, 1)
    from vf.gen import circuits as gc

    out = []
    for desc in case["circuits"]:
        circ = gc.build(desc)
        q = circ.to_openqasm()
        j = json.dumps(circ.to_json())  # key order as produced: part of the exported text
        q2 = circ.copy().to_openqasm()
        out.append([hashlib.sha1(q.encode()).hexdigest(), hashlib.sha1(j.encode()).hexdigest(), hashlib.sha1(q2.encode()).hexdigest()])
    os.dup2(saved, 1)
    print(json.dumps(out))


if __name__ == "__main__":
    main()
