"""C07 - a Clifford tableau stays valid and tracks the right state under any history of the tableau API.

History descriptors are interpreted step by step against a model (dense vector for n<=8, independent Pauli
simulator for n up to 200); after every step the tableau must be binary + symplectic and its stabilizer half
must denote the model state.
"""
import numpy as np
from hypothesis import strategies as st

from ..core import Info, Violation, guarded
from ..engine import Sub
from ..gen import stab as gs
from ..ref import pauli as rp
from ..ref import statevec as sv

ID = "C07"
RULE = (
    "operation histories over the tableau API (H,P,Pdag,X,Y,Z,CNOT,CZ,CY, Z/X/Y measurements forced 0/1/probabilistic, "
    "reset_z/x/y to either state, swap, insert_qubit/add_qubit, remove_qubit, partial_trace, tensor, run_circuit forward "
    "and reversed; function API and the Stabilizer wrapper) from |0..0> or a random valid tableau with non-zero sign "
    "vectors; dense model n<=8, Pauli-algebra model for walks on 50..200 qubits; complete one-step scope over all 11520 "
    "two-qubit tableaux (sampled in quick). Non-trivial = history with a random-outcome measurement, a size change and a "
    "gate after both. Distinct = SHA-1 of the history."
)
ASSUMPTIONS = ["dense reference (n<=8) / Pauli reference (any n); measure_x / measure_y are modelled as the code documents them: "
               "basis change followed by a Z measurement (the tableau is left in the rotated frame)"]
REQUIRED_CLASSES = {"walk": ["random_measurement", "size_change", "nonzero_signs_at_insert", "remove_entangled",
                             "remove_product", "tensor", "swap_with_signs", "run_circuit", "read_only_query", "fork"]}

MAXQ = 8
G1 = ["H", "P", "Pdag", "X", "Y", "Z"]
G2 = ["CNOT", "CZ", "CY"]


def _fn():
    import graphiq.backends.stabilizer.functions.clifford as sfc
    import graphiq.backends.stabilizer.functions.transformation as tr

    g1 = {"H": tr.hadamard_gate, "P": tr.phase_gate, "Pdag": tr.phase_dagger_gate, "X": tr.x_gate, "Y": tr.y_gate,
          "Z": tr.z_gate}
    g2 = {"CNOT": tr.cnot_gate, "CZ": tr.control_z_gate, "CY": tr.control_y_gate}
    return sfc, tr, g1, g2


# ------------------------------------------------------------------------------------------------ dense model
class DenseModel:
    def __init__(self, v, n):
        self.cands = [v]  # candidate states (several only while a hidden random outcome is unresolved)
        self.n = n

    def map(self, f):
        self.cands = [f(v) for v in self.cands]

    def g1(self, g, q):
        self.map(lambda v: sv.apply1(v, self.n, q, sv.GATES[g]))

    def g2(self, g, a, b):
        n = self.n
        if g == "CNOT":
            self.map(lambda v: sv.cnot(v, n, a, b))
        elif g == "CZ":
            self.map(lambda v: sv.cz(v, n, a, b))
        else:  # CY = S_b CNOT S_b^dagger
            self.map(lambda v: sv.apply1(sv.cnot(sv.apply1(v, n, b, sv.GATES["Pdag"]), n, a, b), n, b, sv.GATES["P"]))

    def is_random(self, q):
        return sv.is_random(self.cands[0], self.n, q)

    def measure(self, q, det, outcome=None):
        """det in {0,1} forces; 'probabilistic' uses `outcome` if given, else forks into candidates"""
        out = []
        for v in self.cands:
            if det in (0, 1):
                o = sv.forced_outcome(v, self.n, q, det)
                out.append(sv.project(v, self.n, q, o)[0])
            elif outcome is not None:
                w, p = sv.project(v, self.n, q, outcome)
                if p > sv.TOL:
                    out.append(w)
            else:
                for o in (0, 1):
                    w, p = sv.project(v, self.n, q, o)
                    if p > sv.TOL:
                        out.append(w)
        self.cands = out

    def set_z(self, q, s):
        """qubit q is in a Z eigenstate: put it into |s>"""
        out = []
        for v in self.cands:
            if abs(sv.prob1(v, self.n, q) - s) > 0.5:
                v = sv.apply1(v, self.n, q, sv.GATES["X"])
            out.append(v)
        self.cands = out

    def swap(self, a, b):
        n = self.n

        def f(v):
            t = v.reshape([2] * n)
            return np.swapaxes(t, a, b).reshape(-1)

        self.map(f)

    def insert(self, pos):
        self.map(lambda v: sv.insert_zero(v, self.n, pos))
        self.n += 1

    def remove(self, q, det):
        out = []
        entangled = False
        for v in self.cands:
            w = sv.remove_product_qubit(v, self.n, q)
            if w is not None:
                out.append(w)
                continue
            entangled = True
            for o in ((0, 1) if det == "probabilistic" else (sv.forced_outcome(v, self.n, q, det),)):
                u, p = sv.project(v, self.n, q, o)
                if p > sv.TOL:
                    out.append(sv.remove_product_qubit(u, self.n, q))
        self.cands = out
        self.n -= 1
        return entangled

    def kron(self, w, m):
        self.map(lambda v: np.kron(v, w))
        self.n += m

    def resolve(self, tab):
        """keep the candidate the tableau denotes; None if there is none"""
        for v in self.cands:
            if rp.denotes(tab, v, self.n):
                self.cands = [v]
                return v
        return None


def _det(x):
    return [0, 1, "probabilistic"][x % 3]


def start_tableau(case):
    n0 = case["n0"]
    stt = case.get("start")
    if stt is None:
        from graphiq.backends.stabilizer.clifford_tableau import CliffordTableau

        return CliffordTableau(n0), sv.zero_state(n0), False
    S, D, v = gs.present(dict(stt, n=n0))
    tab = gs.clifford_tableau(S, D, n0)
    return tab, v, bool(np.any(tab.phase))


def check_walk(case, sub="walk", start=None):
    sfc, tr, g1, g2 = _fn()
    from graphiq.backends.stabilizer.state import Stabilizer

    tab, v, _ = start_tableau(case) if start is None else start
    use_class = case.get("api") == "class"
    wrapper = Stabilizer(tab) if use_class else None
    M = DenseModel(v, case["n0"])
    cl = set()
    forks = []
    saw_random = saw_size = False
    nontrivial = False

    def cur():
        return wrapper.tableau if use_class else tab

    def verify(step, site, icls):
        t = cur()
        if t.n_qubits != M.n:
            raise Violation(sub, "n_qubits", site, icls, "tableau has %s qubits, model %s after %s" % (t.n_qubits, M.n, step))
        probs = rp.clifford_tableau_problems(t)
        if probs:
            raise Violation(sub, "invalid-tableau", site, icls, "%s after %s" % ("; ".join(probs), step))
        if M.n > 0 and M.resolve(t) is None:
            raise Violation(sub, "state-mismatch", site, icls,
                            "after %s the stabilizers %s (signs %s) do not denote the model state" % (
                                step, t.stabilizer_to_labels(), t.phase[M.n:].tolist()))

    if M.n > 0 and M.resolve(cur()) is None:
        raise AssertionError("generator produced an inconsistent start tableau")
    for step in case["steps"]:
        n = M.n
        op = step[0]
        signs = bool(np.any(cur().phase))
        if op == "g1":
            if n == 0:
                continue
            g, q = step[1], step[2] % n
            site, icls = "gate:" + g, "plain"
            if use_class:
                meth = {"H": "apply_hadamard", "P": "apply_phase", "Pdag": "apply_phase_dagger", "X": "apply_sigmax",
                        "Y": "apply_sigmay", "Z": "apply_sigmaz"}[g]
                guarded(sub, icls, getattr(wrapper, meth), q)
            else:
                tab = guarded(sub, icls, g1[g], tab, q)
            M.g1(g, q)
        elif op == "g2":
            if n < 2:
                continue
            g, a, b = step[1], step[2] % n, step[3] % n
            if a == b:
                continue
            site, icls = "gate:" + g, "plain"
            if use_class and g != "CY":
                guarded(sub, icls, wrapper.apply_cnot if g == "CNOT" else wrapper.apply_cz, a, b)
            elif use_class:
                wrapper.tableau = guarded(sub, icls, g2[g], wrapper.tableau, a, b)
            else:
                tab = guarded(sub, icls, g2[g], tab, a, b)
            M.g2(g, a, b)
        elif op == "mz":
            if n == 0:
                continue
            q, det = step[1] % n, _det(step[2])
            site = "z_measurement_gate"
            rnd = M.is_random(q)
            icls = "random-outcome" if rnd else "deterministic-outcome"
            np.random.seed(step[3] % (2**32))
            if use_class:
                o = guarded(sub, icls, wrapper.apply_measurement, q, det)
                flag = None
            else:
                tab, o, flag = guarded(sub, icls, sfc.z_measurement_gate, tab, q, det)
            if o not in (0, 1):
                raise Violation(sub, "outcome-not-binary", site, icls, repr(o))
            if flag is not None and bool(flag) != rnd:
                raise Violation(sub, "randomness-flag", site, icls, "returned flag %r, reference random=%s" % (flag, rnd))
            if det in (0, 1):
                M.measure(q, det)
                want = int(round(sv.prob1(M.cands[0], M.n, q)))
                if int(o) != want:
                    raise Violation(sub, "forced-outcome", site, icls, "setting %s: returned %s, reference %s" % (det, o, want))
            else:
                M.measure(q, det, int(o))
                if not M.cands:
                    raise Violation(sub, "impossible-outcome", site, icls, "outcome %s has probability 0" % o)
            if rnd:
                saw_random = True
                cl.add("random_measurement")
        elif op in ("mx", "my"):
            if n == 0 or use_class:
                continue
            q, det = step[1] % n, _det(step[2])
            site = "measure_" + op[1]
            np.random.seed(step[3] % (2**32))
            # documented implementation: rotate the basis, then Z-measure (tableau stays in the rotated frame)
            if op == "my":
                M.g1("Pdag", q)
            M.g1("H", q)
            rnd = M.is_random(q)
            icls = "random-outcome" if rnd else "deterministic-outcome"
            o = guarded(sub, icls, sfc.measure_x if op == "mx" else sfc.measure_y, tab, q, det)
            if det in (0, 1):
                M.measure(q, det)
                want = int(round(sv.prob1(M.cands[0], M.n, q)))
                if int(o) != want:
                    raise Violation(sub, "forced-outcome", site, icls, "setting %s: returned %s, reference %s" % (det, o, want))
            else:
                M.measure(q, det, int(o))
                if not M.cands:
                    raise Violation(sub, "impossible-outcome", site, icls, "outcome %s has probability 0" % o)
            if rnd:
                saw_random = True
                cl.add("random_measurement")
        elif op == "reset":
            if n == 0:
                continue
            basis, q, s, det = "zxy"[step[1] % 3], step[2] % n, step[3] % 2, _det(step[4])
            if use_class and (basis != "z" or s != 0):
                continue
            site = "reset_" + basis
            rnd = M.is_random(q)
            icls = "random-outcome" if rnd else "deterministic-outcome"
            np.random.seed(step[5] % (2**32))
            if use_class:
                guarded(sub, icls, wrapper.reset_qubit, q, det)
            else:
                f = {"z": sfc.reset_z, "x": sfc.reset_x, "y": sfc.reset_y}[basis]
                tab = guarded(sub, icls, f, tab, q, s, det)
            M.measure(q, det)
            M.set_z(q, s)
            if basis in "xy":
                M.g1("H", q)
            if basis == "y":
                M.g1("P", q)
            if rnd:
                saw_random = True
                cl.add("random_measurement")
        elif op == "swap":
            if n < 2 or use_class:
                continue
            a, b = step[1] % n, step[2] % n
            site, icls = "swap_gate", "signs" if signs else "no-signs"
            tab = guarded(sub, icls, sfc.swap_gate, tab, a, b)
            M.swap(a, b)
            if signs:
                cl.add("swap_with_signs")
        elif op in ("insert", "add"):
            if n >= MAXQ or use_class:
                continue
            icls = "signs" if signs else "no-signs"
            if op == "insert":
                pos = step[1] % (n + 1)
                site = "insert_qubit"
                tab = guarded(sub, icls, sfc.insert_qubit, tab, pos)
            else:
                pos = n
                site = "add_qubit"
                tab = guarded(sub, icls, sfc.add_qubit, tab)
            M.insert(pos)
            saw_size = True
            cl.add("size_change")
            if signs:
                cl.add("nonzero_signs_at_insert")
        elif op == "remove":
            if n < 2:
                continue
            q, det = step[1] % n, _det(step[2])
            site = "remove_qubit"
            np.random.seed(step[3] % (2**32))
            prod = sv.remove_product_qubit(M.cands[0], M.n, q) is not None
            icls = "product-qubit" if prod else "entangled-qubit"
            if use_class:
                guarded(sub, icls, wrapper.remove_qubit, q, det)
            else:
                tab = guarded(sub, icls, sfc.remove_qubit, tab, q, det)
            M.remove(q, det)
            cl.add("remove_product" if prod else "remove_entangled")
            saw_size = True
            cl.add("size_change")
        elif op == "ptrace":
            if n < 2:
                continue
            keep = [i for i in range(n) if (step[1] >> i) & 1]
            if not keep or len(keep) == n:
                keep = [0] if n > 1 else keep
            if len(keep) == n:
                continue
            det = _det(step[2])
            site = "partial_trace"
            np.random.seed(step[3] % (2**32))
            removal = sorted(set(range(n)) - set(keep), reverse=True)
            allprod = True
            for q in removal:
                if M.remove(q, det):
                    allprod = False
            icls = "product-qubit" if allprod else "entangled-qubit"
            # the kept positions are a set: listing them in another order must not matter
            keep_arg = list(reversed(keep)) if step[3] % 2 else list(keep)
            if keep_arg != keep:
                cl.add("keep_listed_descending")
            if use_class:
                guarded(sub, icls, wrapper.trace_out_qubits, keep_arg, det)
            else:
                tab = guarded(sub, icls, sfc.partial_trace, tab, keep_arg, [2] * n, det)
            cl.add("remove_product" if allprod else "remove_entangled")
            saw_size = True
            cl.add("size_change")
        elif op == "fork":
            # a second tableau built from this one with the constructor; it is kept aside and must keep denoting the state of
            # this moment whatever happens to the walked tableau afterwards (and the other way round)
            if n == 0 or len(M.cands) != 1:
                continue
            from graphiq.backends.stabilizer.clifford_tableau import CliffordTableau as _CT

            site, icls = "fork", "plain"
            forks.append((guarded(sub, icls, _CT, cur()), M.cands[0].copy(), n))
            del forks[:-3]
            cl.add("fork")
        elif op == "query":
            # read-only questions about the tableau (conversion to a stabilizer tableau, canonical form, equality with a copy):
            # they must not change the tableau that is walked on
            if n == 0:
                continue
            from graphiq.backends.stabilizer.functions.stabilizer import canonical_form

            cur_tab = cur()
            site, icls = "query", "plain"
            # one question per step (two in a row could undo each other's damage)
            if (step[1] if len(step) > 1 else 0) % 2 == 0:
                guarded(sub, icls, canonical_form, cur_tab.to_stabilizer())
            else:
                guarded(sub, icls, lambda: Stabilizer(cur_tab) == Stabilizer(cur_tab.copy()))
            cl.add("read_only_query")
        elif op == "tensor":
            if use_class:
                continue
            od = step[1]
            m = od["n"]
            if n + m > MAXQ:
                continue
            S2, D2, w = gs.present(od)
            other = gs.clifford_tableau(S2, D2, m)
            site, icls = "tensor", "plain"
            tab = guarded(sub, icls, sfc.tensor, [tab, other])
            M.kron(w, m)
            saw_size = True
            cl.update(["size_change", "tensor"])
        elif op == "circ":
            if n == 0:
                continue
            gates = []
            for g in step[1]:
                if g[0] in ("CNOT", "CZ"):
                    a, b = g[1] % n, g[2] % n
                    if a != b:
                        gates.append((g[0], a, b))
                else:
                    gates.append((g[0], g[1] % n))
            rev = bool(step[2])
            site, icls = "run_circuit", "reverse" if rev else "forward"
            if use_class:
                guarded(sub, icls, wrapper.apply_circuit, [tuple(g) for g in gates], rev)
            else:
                tab = guarded(sub, icls, tr.run_circuit, tab, [tuple(g) for g in gates], rev)
            seq = list(reversed(gates)) if rev else gates
            for g in seq:
                if g[0] in ("CNOT", "CZ"):
                    M.g2(g[0], g[1], g[2])
                else:
                    name = {"P_dag": "Pdag"}.get(g[0], g[0])
                    if rev:
                        name = {"P": "Pdag", "Pdag": "P"}.get(name, name)
                    M.g1(name, g[1])
            cl.add("run_circuit")
        else:
            raise ValueError(op)
        verify(step, site, icls)
        for ft, fv, fn in forks:
            if ft.n_qubits != fn or rp.clifford_tableau_problems(ft) or not rp.denotes(ft, fv, fn):
                raise Violation(sub, "copy-aliased", site, icls, "after %s a tableau built earlier with CliffordTableau(other) no longer denotes the state it was built from" % (step,))
        if saw_random and saw_size and op in ("g1", "g2"):
            nontrivial = True
    cl.add("api:class" if use_class else "api:func")
    return Info(nontrivial=nontrivial, classes=sorted(cl))


# ------------------------------------------------------------------------------------------------ large walks
def check_large(case, sub="large"):
    sfc, tr, g1, g2 = _fn()
    from graphiq.backends.stabilizer.clifford_tableau import CliffordTableau

    n = case["n0"]
    tab = CliffordTableau(n)
    ps = rp.PauliSim(n)
    every = case.get("every", 20)

    def verify(k, step):
        probs = rp.clifford_tableau_problems(tab)
        if probs:
            raise Violation(sub, "invalid-tableau", "large-walk", "n>=50", "%s after step %d %s" % ("; ".join(probs), k, step))
        got = rp.stabilizer_paulis(tab)
        if not all(rp.is_hermitian(p) for p in got) or rp.group_key(got, ps.n) != rp.group_key(ps.stab, ps.n):
            raise Violation(sub, "state-mismatch", "large-walk", "n>=50", "after step %d %s" % (k, step))

    saw_random = saw_size = nontrivial = False
    cl = set()
    for k, step in enumerate(case["steps"]):
        n = ps.n
        op = step[0]
        if op == "g1":
            g, q = step[1], step[2] % n
            tab = guarded(sub, "n>=50", g1[g], tab, q)
            ps.gate1(g, q)
            if saw_random and saw_size:
                nontrivial = True
        elif op == "g2":
            g, a, b = step[1], step[2] % n, step[3] % n
            if a == b or g == "CY":
                continue
            tab = guarded(sub, "n>=50", g2[g], tab, a, b)
            ps.cnot(a, b) if g == "CNOT" else ps.cz(a, b)
        elif op == "mz":
            q, det = step[1] % n, _det(step[2])
            np.random.seed(step[3] % (2**32))
            tab, o, flag = guarded(sub, "n>=50", sfc.z_measurement_gate, tab, q, det)
            want, rnd = ps.measure_z(q, forced=(det if det in (0, 1) else None), rng_outcome=int(o))
            if bool(flag) != rnd or int(o) != want:
                raise Violation(sub, "measurement", "z_measurement_gate", "n>=50",
                                "step %d: returned (%s,%s), model (%s,%s)" % (k, o, bool(flag), want, rnd))
            if rnd:
                saw_random = True
                cl.add("random_measurement")
        elif op == "reset":
            q, s = step[2] % n, step[3] % 2
            det = step[4] % 2
            tab = guarded(sub, "n>=50", sfc.reset_z, tab, q, s, det)
            o, rnd = ps.measure_z(q, forced=det)
            if o != s:
                ps.gate1("X", q)
        elif op == "circ":
            gates = []
            for g in step[1]:
                if g[0] in ("CNOT", "CZ"):
                    a, b = g[1] % n, g[2] % n
                    if a != b:
                        gates.append((g[0], a, b))
                else:
                    gates.append((g[0], g[1] % n))
            before = rp.group_key(ps.stab, n) if k % 3 == 0 else None
            tab = guarded(sub, "n>=50", tr.run_circuit, tab, list(gates), False)
            tab = guarded(sub, "n>=50", tr.run_circuit, tab, list(gates), True)
            cl.add("run_circuit")
            if before is not None:
                verify(k, "circuit followed by its reverse")
        else:
            continue
        if k % every == every - 1:
            verify(k, step)
    verify(len(case["steps"]), "end")
    cl.add("n>=50")
    return Info(nontrivial=nontrivial or saw_random, classes=sorted(cl))


# ------------------------------------------------------------------------------------------------ one-step complete scope
_TWO = None


def two_qubit_tableaux():
    """all 11520 valid two-qubit Clifford tableaux (720 symplectic matrices x 16 sign patterns) as (stab, destab) Pauli
    lists, generated by closure in the reference"""
    global _TWO
    if _TWO is None:
        start = rp.PauliSim(2)
        seen = {}
        todo = [start]
        seen[(tuple((p[0], p[1]) for p in start.destab + start.stab))] = start
        gens = [("H", 0), ("H", 1), ("P", 0), ("P", 1), ("CNOT", 0, 1), ("CNOT", 1, 0)]
        while todo:
            s = todo.pop()
            for g in gens:
                t = s.copy()
                if g[0] == "CNOT":
                    t.cnot(g[1], g[2])
                else:
                    t.gate1(g[0], g[1])
                key = tuple((p[0], p[1]) for p in t.destab + t.stab)
                if key not in seen:
                    seen[key] = t
                    todo.append(t)
        _TWO = list(seen.values())
        assert len(_TWO) == 720, len(_TWO)
    return _TWO


ONE_STEP_OPS = (
    [["g1", g, q] for g in G1 for q in range(2)]
    + [["g2", g, a, 1 - a] for g in G2 for a in range(2)]
    + [["mz", q, d, 11] for q in range(2) for d in range(3)]
    + [["mx", q, d, 12] for q in range(2) for d in range(3)]
    + [["my", q, d, 13] for q in range(2) for d in range(3)]
    + [["reset", b, q, s, d, 14] for b in range(3) for q in range(2) for s in range(2) for d in range(2)]
    + [["swap", 0, 1], ["insert", 0], ["insert", 1], ["insert", 2], ["add"]]
    + [["remove", q, d, 15] for q in range(2) for d in range(3)]
    + [["ptrace", 1, 0, 16], ["ptrace", 2, 1, 17]]
)


def _signed(t, sg):
    s = two_qubit_tableaux()[t]
    S = [[p[0], p[1], (p[2] + 2 * ((sg >> (2 + i)) & 1)) % 4] for i, p in enumerate(s.stab)]
    D = [[p[0], p[1], (p[2] + 2 * ((sg >> i) & 1)) % 4] for i, p in enumerate(s.destab)]
    return S, D


def check_onestep(case, sub="walk"):
    """case: {"S": signed stabilizer Paulis [x,z,k], "D": destabilizers, "op": step} on two qubits"""
    S = [tuple(p) for p in case["S"]]
    D = [tuple(p) for p in case["D"]]
    # the state stabilised by S: project a fixed generic vector with prod (1+P)
    rng = np.random.default_rng(5)
    v = rng.normal(size=4) + 1j * rng.normal(size=4)
    for p in S:
        v = v + rp.apply_to_vector(p, v, 2)
    v = v / np.linalg.norm(v)
    tab = gs.clifford_tableau(S, D, 2)
    return _onestep_run(tab, v, case["op"], sub)


def _onestep_run(tab, v, op, sub):
    # reuse the walk interpreter with an explicit start
    return check_walk({"n0": 2, "steps": [op]}, sub, start=(tab, v, True))


def enum_onestep(tier, seed):
    rng = __import__("random").Random(seed)
    cases = []
    nt = 720
    if tier == "thorough":
        for t in range(nt):
            for sg in range(16):
                S, D = _signed(t, sg)
                for op in ONE_STEP_OPS:
                    cases.append({"S": S, "D": D, "op": op})
        return cases, True
    for t in range(nt):
        for sg in rng.sample(range(16), 2):
            S, D = _signed(t, sg)
            for op in rng.sample(ONE_STEP_OPS, 8):
                cases.append({"S": S, "D": D, "op": op})
    return cases, False


# ------------------------------------------------------------------------------------------------ strategies
def st_step(large=False):
    i = st.integers(0, 255)
    seed = st.integers(0, 2**31 - 1)
    gates = st.lists(st.one_of(
        st.tuples(st.sampled_from(["H", "P", "P_dag", "X", "Y", "Z", "I"]), i),
        st.tuples(st.sampled_from(["CNOT", "CZ"]), i, i)).map(list), min_size=1, max_size=6)
    opts = [
        st.tuples(st.just("g1"), st.sampled_from(G1), i),
        st.tuples(st.just("g1"), st.just("H"), i),
        st.tuples(st.just("g2"), st.sampled_from(G2), i, i),
        st.tuples(st.just("g2"), st.sampled_from(G2), i, i),
        st.tuples(st.just("mz"), i, st.integers(0, 2), seed),
        st.tuples(st.just("reset"), st.integers(0, 2), i, st.integers(0, 1), st.integers(0, 2), seed),
        st.tuples(st.just("circ"), gates, st.integers(0, 1)),
        st.tuples(st.just("query"), st.integers(0, 1)),
        st.tuples(st.just("fork")),
    ]
    if not large:
        opts += [
            st.tuples(st.sampled_from(["mx", "my"]), i, st.integers(0, 2), seed),
            st.tuples(st.just("swap"), i, i),
            st.tuples(st.just("insert"), i),
            st.tuples(st.just("add")),
            st.tuples(st.just("remove"), i, st.integers(0, 2), seed),
            st.tuples(st.just("ptrace"), st.integers(1, 255), st.integers(0, 2), seed),
            st.tuples(st.just("tensor"), gs.st_state(1, 2, max_word=6, max_rowops=4)),
        ]
    return st.one_of(*opts).map(list)


def strat_walk(tier):
    L = 40 if tier == "quick" else 80
    return st.fixed_dictionaries({
        "n0": st.integers(1, 5),
        "start": st.one_of(st.none(), st.fixed_dictionaries({"word": gs.st_word(4, 12), "rowops": gs.st_rowops(4, 8)})),
        "api": st.sampled_from(["func", "func", "func", "class"]),
        "steps": st.lists(st_step(), min_size=1, max_size=L),
    })


def strat_large(tier):
    lo, hi, L = (50, 100, 120) if tier == "quick" else (100, 200, 600)
    return st.fixed_dictionaries({
        "n0": st.integers(lo, hi),
        "every": st.just(25),
        "steps": st.lists(st_step(large=True), min_size=L // 2, max_size=L),
    })


SUBS = [
    Sub("walk", check_walk, strategy=strat_walk, n={"quick": 300, "thorough": 3000}),
    Sub("onestep", check_onestep, enum=enum_onestep,
        doc="all 720 two-qubit symplectic tableaux x sign patterns x every single operation (complete in thorough: 11520 "
            "tableaux x %d operations; 2 sign patterns x 8 operations per tableau in quick)" % len(ONE_STEP_OPS)),
    Sub("large", check_large, strategy=strat_large, n={"quick": 2, "thorough": 8}, shrink=False,
        timeout={"quick": 300, "thorough": 1200}),
]
