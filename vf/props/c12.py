"""C12 - the circuit DAG stays structurally consistent under any edit history (model-based)."""
import numpy as np
from hypothesis import strategies as st

from ..core import Info, Violation, guarded
from ..engine import Sub
from ..gen import circuits as gc

ID = "C12"
RULE = (
    "edit histories over CircuitDAG: add (also register-adding), insert_at on generated edges (second edge of a two-qubit "
    "operation drawn from the edges the circuit reports compatible), remove_op, replace_op, unwrap_nodes, "
    "group_one_qubit_gates, remove_identity, add_*_register, copy (continue on the copy), label queries; from an empty "
    "circuit with 0-3 registers per type or a generated circuit; model = per-wire lists of node ids. Complete over all "
    "histories of length <=2 (quick) / <=3 (thorough) on one emitter + one photon + one classical register. Non-trivial = "
    "history with an insert_at, a later removal, and a group/unwrap after both. Distinct = SHA-1 of the history."
)
ASSUMPTIONS = ["operations inserted with insert_at are not wired to classical registers (only add does that); the statement asks for "
               "quantum wires only, classical wires must merely stay single paths",
               "group_one_qubit_gates groups unitary one-qubit gates; a Z-measurement ends a run"]
REQUIRED_CLASSES = {"history": ["insert", "insert2", "remove", "replace", "group", "unwrap", "rmid", "copy", "addreg", "register_adding_add", "edges_ordered_through_classical_wire_only", "user_label",
                                "same_class_replace_changes_label", "source_checked_after_editing_copy", "edges_listed_in_other_order"]}

UNITARY1 = set(gc.ONE) | {"W"}


class Model:
    def __init__(self, ne, np_, nc):
        self.n = {"e": ne, "p": np_, "c": nc}
        self.wire = {}
        for t in "epc":
            for r in range(self.n[t]):
                self.wire[(t, r)] = []
        self.desc = {}  # node id -> op descriptor
        self.cwired = {}  # node id -> bool
        self.fixed = {}  # node id -> bool: carries the user label "Fixed" (only nodes whose status is known)

    def add_reg(self, t):
        self.wire[(t, self.n[t])] = []
        self.n[t] += 1

    def ensure(self, t, r):
        while self.n[t] <= r:
            self.add_reg(t)

    def edges(self):
        """model edge set {(u, v, key)} incl. IO nodes"""
        out = set()
        for (t, r), w in self.wire.items():
            seq = ["%s%d_in" % (t, r)] + list(w) + ["%s%d_out" % (t, r)]
            for a, b in zip(seq, seq[1:]):
                out.add((a, b, "%s%d" % (t, r)))
        return out

    def nodes(self):
        return list(self.desc.keys())

    def longest(self):
        """number of op nodes on the longest path ending at every node (IO = 0 / pass-through)"""
        import collections

        succ = collections.defaultdict(set)
        indeg = collections.Counter()
        allnodes = set()
        for a, b, k in self.edges():
            allnodes.add(a)
            allnodes.add(b)
            if b not in succ[a]:
                succ[a].add(b)
                indeg[b] += 1
        order = [x for x in allnodes if indeg[x] == 0]
        best = {x: 0 for x in allnodes}
        i = 0
        seen = 0
        while i < len(order):
            a = order[i]
            i += 1
            seen += 1
            w = best[a] + (1 if a in self.desc else 0)
            for b in succ[a]:
                best[b] = max(best[b], w)
                indeg[b] -= 1
                if indeg[b] == 0:
                    order.append(b)
        if seen != len(allnodes):
            return None, None
        return best, order


def labels_of(d):
    g = d[0]
    labs = []
    if g in gc.ONE or g == "W" or g == "MZ":
        labs.append("one-qubit")
    else:
        labs.append("two-qubit")
    cls = {"I": "Identity", "H": "Hadamard", "P": "Phase", "Pdag": "PhaseDagger", "X": "SigmaX", "Y": "SigmaY", "Z": "SigmaZ",
           "W": "OneQubitGateWrapper", "CNOT": "CNOT", "CZ": "CZ", "CCNOT": "ClassicalCNOT", "CCZ": "ClassicalCZ",
           "MCR": "MeasurementCNOTandReset", "MZ": "MeasurementZ"}[g]
    labs.append(cls)
    tn = {"e": "Emitter", "p": "Photonic"}
    labs.append("-".join(tn[t] for t, r in gc.qregs(d)))
    return labs


def verify(circ, M, sub, site, step):
    import networkx as nx

    def bad(kind, msg):
        raise Violation(sub, kind, site, "plain", "after %s: %s" % (step, msg))

    dag = circ.dag
    if not nx.is_directed_acyclic_graph(dag):
        bad("cycle", "the circuit is not a DAG")
    io_in = {"%s%d_in" % (t, r) for t in "epc" for r in range(M.n[t])}
    io_out = {"%s%d_out" % (t, r) for t in "epc" for r in range(M.n[t])}
    want_nodes = set(M.nodes()) | io_in | io_out
    if set(dag.nodes) != want_nodes:
        bad("node-set", "DAG nodes %s, model %s" % (sorted(map(str, set(dag.nodes) ^ want_nodes)), "symmetric difference shown"))
    sources = {x for x, d in dag.in_degree() if d == 0}
    sinks = {x for x, d in dag.out_degree() if d == 0}
    if sources != io_in or sinks != io_out:
        bad("sources-sinks", "sources %s sinks %s" % (sorted(map(str, sources ^ io_in)), sorted(map(str, sinks ^ io_out))))
    got_edges = set(dag.edges(keys=True))
    want_edges = M.edges()
    if got_edges != want_edges:
        bad("wires", "edges differ from the model: only in DAG %s, only in model %s" % (
            sorted(map(str, got_edges - want_edges))[:6], sorted(map(str, want_edges - got_edges))[:6]))
    for u, v, k, data in dag.edges(keys=True, data=True):
        if "%s%s" % (data.get("reg_type"), data.get("reg")) != k:
            bad("edge-attributes", "edge %s carries reg_type/reg %s/%s" % ((u, v, k), data.get("reg_type"), data.get("reg")))
    # operation objects sit on the registers the model says
    for nid, d in M.desc.items():
        op = dag.nodes[nid]["op"]
        if gc.name_of(op) != d:
            bad("node-op", "node %s holds %s, model %s" % (nid, gc.name_of(op), d))
    # register counts
    if (circ.n_emitters, circ.n_photons, circ.n_classical, circ.n_quantum) != (M.n["e"], M.n["p"], M.n["c"], M.n["e"] + M.n["p"]):
        bad("register-counts", "circuit reports e/p/c/q = %s, model %s" % (
            (circ.n_emitters, circ.n_photons, circ.n_classical, circ.n_quantum), M.n))
    reg = circ.register
    if {t: len(reg[t]) for t in "epc"} != M.n:
        bad("register-counts", "register dict %s" % {t: len(reg[t]) for t in "epc"})
    # label index
    want_index = {}
    for nid, d in M.desc.items():
        for lab in labels_of(d):
            want_index.setdefault(lab, set()).add(nid)
    want_index["Input"] = set(io_in)
    want_index["Output"] = set(io_out)
    # user labels (the solvers' "Fixed"): the index lists exactly the nodes whose operation carries the label
    listed_fixed = list(circ.node_dict.get("Fixed", []))
    if len(listed_fixed) != len(set(listed_fixed)):
        bad("node-dict", "label Fixed lists a node twice: %s" % (listed_fixed,))
    for nid in listed_fixed:
        if nid not in circ.dag.nodes:
            bad("node-dict", "label Fixed lists node %s, which is not in the graph" % (nid,))
    for nid, flag in M.fixed.items():
        if nid not in M.desc:
            continue
        on_op = "Fixed" in circ.dag.nodes[nid]["op"].labels
        if on_op != flag:
            bad("node-dict", "operation at node %s %s the label Fixed it was %s" % (nid, "carries" if on_op else "lost", "not given" if on_op else "given"))
        if (nid in listed_fixed) != flag:
            bad("node-dict", "label Fixed: node %s is %s although its operation %s the label" % (
                nid, "listed" if nid in listed_fixed else "not listed", "carries" if flag else "does not carry"))
    for lab, ids in circ.node_dict.items():
        if lab == "Fixed":
            continue
        if len(ids) != len(set(ids)):
            bad("node-dict", "label %s lists a node twice: %s" % (lab, ids))
        if set(ids) != want_index.get(lab, set()):
            bad("node-dict", "label %s -> %s, expected %s" % (lab, sorted(map(str, ids)), sorted(map(str, want_index.get(lab, set())))))
    for lab, ids in want_index.items():
        if ids and set(circ.node_dict.get(lab, [])) != ids:
            bad("node-dict", "label %s missing nodes" % lab)
    # edge index
    for t in "epc":
        lst = [tuple(e) for e in circ.edge_dict.get(t, [])]
        want = {e for e in want_edges if e[2][0] == t}
        if len(lst) != len(set(lst)) or set(lst) != want:
            bad("edge-dict", "edge_dict[%s] differs: extra %s missing %s" % (t, sorted(map(str, set(lst) - want))[:4], sorted(map(str, want - set(lst)))[:4]))
    # sequence handed to compilers
    seq = guarded(sub, "plain", circ.sequence)
    ids_by_obj = {id(dag.nodes[x]["op"]): x for x in dag.nodes}
    order = [ids_by_obj.get(id(o)) for o in seq]
    if None in order or len(order) != len(want_nodes) or set(order) != want_nodes:
        bad("sequence", "sequence() is not a permutation of the circuit's operations")
    posn = {x: i for i, x in enumerate(order)}
    for a, b, k in want_edges:
        if posn[a] >= posn[b]:
            bad("sequence", "sequence() is not a topological order: %s before %s on %s" % (b, a, k))
    useq = guarded(sub, "plain", circ.sequence, unwrapped=True)
    got_u = [gc.name_of(o) for o in useq]
    got_u = [x for x in got_u if x is not None]
    want_u = gc.expand([M.desc[x] for x in order if x in M.desc])
    if got_u != want_u:
        bad("sequence-unwrapped", "unwrapped sequence %s, expected %s" % (got_u[:8], want_u[:8]))
    # depths
    best, _ = M.longest()
    if best is None:
        bad("cycle", "model has a cycle")
    want_depth = max([best[x] for x in io_out] + [0])
    d = guarded(sub, "plain", lambda: circ.depth)
    if want_nodes and d != want_depth and not (len(io_out) == 0):
        bad("depth", "depth %s, longest chain of operations %s" % (d, want_depth))
    if io_out:
        rd = guarded(sub, "plain", lambda: circ.register_depth)
        for t in "epc":
            want = [best["%s%d_out" % (t, r)] for r in range(M.n[t])]
            if list(rd[t]) != want:
                bad("register-depth", "register_depth[%s] = %s, expected %s" % (t, list(rd[t]), want))
    try:
        circ.validate()
    except Exception as e:
        bad("validate", "validate() raised %r" % (e,))


def type_name(d):
    return "W" if d[0] == "W" else d[0]


def classical_only_order(M, e1, q2):
    """model-side: is some edge of wire q2 ordered with edge e1 through wires that include a classical one, but not through
    quantum wires alone?  (successor relation from the model's wires; the node after / before e1 is the start)"""
    def reach(start_nodes, forward, use_classical):
        succ = {}
        for key, w in M.wire.items():
            if key[0] == "c" and not use_classical:
                continue
            ww = [x for x in w if key[0] != "c" or M.cwired.get(x, False)]
            for a, b in zip(ww, ww[1:]):
                if forward:
                    succ.setdefault(a, set()).add(b)
                else:
                    succ.setdefault(b, set()).add(a)
        seen = set(start_nodes)
        todo = list(start_nodes)
        while todo:
            x = todo.pop()
            for y in succ.get(x, ()):
                if y not in seen:
                    seen.add(y)
                    todo.append(y)
        return seen
    a, b = e1[0], e1[1]
    on_q2 = set(M.wire[q2])
    for forward, start in ((True, b), (False, a)):
        if str(start).endswith(("_in", "_out")):
            continue
        full = reach([start], forward, True) & on_q2
        quantum = reach([start], forward, False) & on_q2
        if full - quantum:
            return True
    return False


def check_history(case, sub="history"):
    import copy as _copy

    from graphiq.circuit.circuit_dag import CircuitDAG

    ne, np_, nc = case["ne"], case["np"], case["nc"]
    circ = guarded(sub, "plain", CircuitDAG, n_emitter=ne, n_photon=np_, n_classical=nc)
    M = Model(ne, np_, nc)
    cl = set()
    left_behind = []
    seen_insert = seen_remove_after = nontrivial = False

    def new_node(before):
        new = [x for x in circ.dag.nodes if x not in before]
        if len(new) != 1:
            raise Violation(sub, "node-count", "edit", "plain", "edit created %d nodes" % len(new))
        return new[0]

    def do_add(d, flag=False):
        for t, r in gc.qregs(d):
            if r > M.n[t]:
                return False
        for c in gc.cregs(d):
            if c > M.n["c"]:
                return False
        if len(set(gc.qregs(d))) != len(gc.qregs(d)):
            return False
        # registers are created classical first, then quantum in sorted order (as the circuit does); a two-qubit op on
        # two new registers of one type must name them in creatable order
        newq = sorted((r, t) for t, r in gc.qregs(d) if r == M.n[t])
        for t in "ep":
            rs = [r for r, tt in newq if tt == t]
            if len(rs) > 1:
                return False
        if any(r >= M.n[t] for t, r in gc.qregs(d)) or any(c >= M.n["c"] for c in gc.cregs(d)):
            cl.add("register_adding_add")
        before = set(circ.dag.nodes)
        o = gc.make_op(d)
        if flag:
            o.add_labels("Fixed")
        guarded(sub, "plain", circ.add, o)
        for c in gc.cregs(d):
            M.ensure("c", c)
        for t, r in gc.qregs(d):
            M.ensure(t, r)
        nid = [x for x in circ.dag.nodes if x not in before and not str(x).endswith(("_in", "_out"))]
        if len(nid) != 1:
            raise Violation(sub, "node-count", "add", "plain", "add created %d operation nodes" % len(nid))
        nid = nid[0]
        M.desc[nid] = d
        M.cwired[nid] = True
        M.fixed[nid] = flag
        for q in gc.qregs(d):
            M.wire[q].append(nid)
        for c in gc.cregs(d):
            M.wire[("c", c)].append(nid)
        return True

    for d in case.get("init", []):
        do_add(d)
    verify(circ, M, sub, "add", "initial circuit")

    steps = []
    for step in case["steps"]:
        if step[0] == "cpair":
            # two measuring operations on different quantum registers writing the same classical register, then a two-qubit
            # operation between the two registers: its edge pairs are partly ordered through the classical wire only
            _, ta, ra, tb, rb, c, kinds, gate, i, j, flip = step
            mk = lambda kind, t, r, t2, r2: ["MZ", t, r, c] if kind == "MZ" else [kind, t, r, t2, r2, c]
            steps.append(["add", mk(kinds[0], ta, ra, tb, rb)])
            steps.append(["add", mk(kinds[1], tb, rb, ta, ra)])
            steps.append(["insert", [gate, tb, rb, ta, ra] if flip else [gate, ta, ra, tb, rb], i, j])
        else:
            steps.append(step)
    def mk(d, flag):
        o = gc.make_op(d)
        if flag:
            o.add_labels("Fixed")
        return o

    for step in steps:
        op = step[0]
        flag = False
        if op in ("add_f", "insert_f", "replace_f"):
            flag = True
            op = op[:-2]
            cl.add("user_label")
        site = op
        known = {k: id(v) for k, v in M.desc.items()}
        known_fixed = dict(M.fixed)
        if op == "add":
            if not do_add(step[1], flag):
                continue
        elif op == "insert":
            d = step[1]
            qs = gc.qregs(d)
            if any(r >= M.n[t] for t, r in qs) or any(c >= M.n["c"] for c in gc.cregs(d)) or len(set(qs)) != len(qs):
                continue

            def edge_at(q, sel):
                w = M.wire[q]
                i = sel % (len(w) + 1)
                seq = ["%s%d_in" % q] + list(w) + ["%s%d_out" % q]
                return (seq[i], seq[i + 1], "%s%d" % q), i

            e1, i1 = edge_at(qs[0], step[2])
            edges = [e1]
            poss = [i1]
            if len(qs) == 2:
                inc = guarded(sub, "plain", circ.find_incompatible_edges, e1)
                if classical_only_order(M, e1, qs[1]):
                    cl.add("edges_ordered_through_classical_wire_only")
                w = M.wire[qs[1]]
                seq = ["%s%d_in" % qs[1]] + list(w) + ["%s%d_out" % qs[1]]
                cands = [(i, (seq[i], seq[i + 1], "%s%d" % qs[1])) for i in range(len(seq) - 1)]
                cands = [(i, e) for i, e in cands if e not in inc]
                if not cands:
                    cl.add("no_compatible_edge")
                    continue
                i2, e2 = cands[step[3] % len(cands)]
                edges.append(e2)
                poss.append(i2)
                cl.add("insert2")
            before = set(circ.dag.nodes)
            if len(edges) == 2 and step[3] % 2:
                # "a list of edges relevant for this operation": the order of the list is not part of the contract
                edges_arg = [edges[1], edges[0]]
                cl.add("edges_listed_in_other_order")
            else:
                edges_arg = list(edges)
            guarded(sub, "plain", circ.insert_at, mk(d, flag), edges_arg)
            nid = new_node(before)
            M.desc[nid] = d
            M.cwired[nid] = False
            M.fixed[nid] = flag
            for q, i in zip(qs, poss):
                M.wire[q].insert(i, nid)
            cl.add("insert")
            seen_insert = True
            site = "insert_at"
        elif op == "remove":
            ids = sorted(M.nodes())
            if not ids:
                continue
            nid = ids[step[1] % len(ids)]
            guarded(sub, "plain", circ.remove_op, nid)
            for w in M.wire.values():
                while nid in w:
                    w.remove(nid)
            del M.desc[nid]
            cl.add("remove")
            if seen_insert:
                seen_remove_after = True
            site = "remove_op"
        elif op == "replace":
            ids = sorted(M.nodes())
            if not ids:
                continue
            nid = ids[step[1] % len(ids)]
            d = M.desc[nid]
            g = d[0]
            if g in gc.ONE or g == "W":
                new = step[2]
                nd = ([new[0], d[1], d[2]] if new[0] != "W" else ["W", d[1], d[2], new[1]])
            elif g in gc.TWO:
                nd = [gc.TWO[step[3] % 2]] + d[1:]
            elif g in gc.CC:
                nd = [gc.CC[step[3] % 3]] + d[1:]
            else:
                continue
            guarded(sub, "plain", circ.replace_op, nid, mk(nd, flag))
            M.desc[nid] = nd
            M.fixed[nid] = flag
            if flag != known_fixed.get(nid, flag) and type_name(nd) == type_name(d):
                cl.add("same_class_replace_changes_label")
            cl.add("replace")
            site = "replace_op"
        elif op == "unwrap":
            wrappers = [x for x in sorted(M.nodes()) if M.desc[x][0] == "W"]
            # node ids are handed out in the order in which the circuit walks its wrapper index
            listed = [x for x in circ.node_dict.get("OneQubitGateWrapper", []) if x in wrappers]
            if sorted(listed) == wrappers:
                wrappers = listed
            before = set(circ.dag.nodes)
            guarded(sub, "plain", circ.unwrap_nodes)
            # model: each wrapper replaced on its wire by its gates in execution order (last listed first)
            created = sorted(x for x in circ.dag.nodes if x not in before)
            it = iter(created)
            for wnode in wrappers:
                d = M.desc[wnode]
                q = (d[1], d[2])
                pos = M.wire[q].index(wnode)
                newids = []
                for g in reversed(d[3]):
                    try:
                        nid = next(it)
                    except StopIteration:
                        raise Violation(sub, "node-count", "unwrap_nodes", "plain", "fewer nodes created than gates in the wrappers")
                    M.desc[nid] = [g, d[1], d[2]]
                    M.cwired[nid] = False
                    newids.append(nid)
                M.wire[q][pos: pos + 1] = newids
                del M.desc[wnode]
            cl.add("unwrap")
            if seen_remove_after:
                nontrivial = True
            site = "unwrap_nodes"
        elif op == "group":
            before = set(circ.dag.nodes)
            exp_before = {q: gc.expand([M.desc[x] for x in w]) for q, w in M.wire.items() if q[0] != "c"}
            guarded(sub, "plain", circ.group_one_qubit_gates)
            # model: on every quantum wire each maximal run of unitary one-qubit gates becomes one wrapper
            created = [x for x in circ.dag.nodes if x not in before]
            for q in [k for k in M.wire if k[0] != "c"]:
                w = M.wire[q]
                neww = []
                run = []

                def flush():
                    if run:
                        gates = []
                        for x in reversed(run):  # last acting first listed
                            dd = M.desc[x]
                            gates += list(dd[3]) if dd[0] == "W" else [dd[0]]
                        # find the created node on this register
                        cands = [c for c in created if c in circ.dag.nodes and gc.name_of(circ.dag.nodes[c]["op"]) == ["W", q[0], q[1], gates]
                                 and c not in M.desc]
                        if not cands:
                            raise Violation(sub, "group-result", "group_one_qubit_gates", "plain",
                                            "no wrapper %s on %s%d after grouping" % (gates, q[0], q[1]))
                        # choose the candidate adjacent to the right neighbours via the DAG's own wire order later (edge check)
                        nid = None
                        for c in cands:
                            preds = [u for u, v, k in circ.dag.in_edges(c, keys=True) if k == "%s%d" % q]
                            prev = neww[-1] if neww else "%s%d_in" % q
                            if preds == [prev]:
                                nid = c
                                break
                        if nid is None:
                            nid = cands[0]
                        for x in run:
                            del M.desc[x]
                            M.cwired.pop(x, None)
                        M.desc[nid] = ["W", q[0], q[1], gates]
                        M.cwired[nid] = False
                        neww.append(nid)
                        run.clear()

                for x in w:
                    if M.desc[x][0] in UNITARY1:
                        run.append(x)
                    else:
                        flush()
                        neww.append(x)
                flush()
                M.wire[q] = neww
            for q, ex in exp_before.items():
                now = gc.expand([M.desc[x] for x in M.wire[q]])
                if now != ex:
                    raise Violation(sub, "group-result", "group_one_qubit_gates", "plain", "wire %s%d changed its gate sequence" % q)
            cl.add("group")
            if seen_remove_after:
                nontrivial = True
            site = "group_one_qubit_gates"
        elif op == "rmid":
            guarded(sub, "plain", circ.remove_identity)
            for nid in [x for x in M.nodes() if M.desc[x][0] == "I"]:
                for w in M.wire.values():
                    while nid in w:
                        w.remove(nid)
                del M.desc[nid]
            cl.add("rmid")
            site = "remove_identity"
        elif op == "addreg":
            t = "epc"[step[1] % 3]
            f = {"e": circ.add_emitter_register, "p": circ.add_photonic_register, "c": circ.add_classical_register}[t]
            guarded(sub, "plain", f)
            M.add_reg(t)
            cl.add("addreg")
            site = "add_register"
        elif op == "copy":
            circ2 = guarded(sub, "plain", circ.copy)
            if circ2 is circ or circ2.dag is circ.dag:
                raise Violation(sub, "copy-aliased", "copy", "plain", "copy shares the DAG")
            # the object copied from is kept: later edits of the copy must leave it exactly as it was
            left_behind.append((circ, _copy.deepcopy(M)))
            del left_behind[:-2]
            circ = circ2
            cl.add("copy")
            site = "copy"
        elif op == "query":
            labs = step[1]
            got = guarded(sub, "plain", circ.get_node_by_labels, labs, allow=(KeyError,)) if all(l in circ.node_dict for l in labs) else None
            if got is not None:
                want = set(M.nodes())
                for lab in labs:
                    want &= {x for x in M.nodes() if lab in labels_of(M.desc[x])}
                if set(got) - {x for x in got if str(x).endswith(("_in", "_out"))} != want:
                    raise Violation(sub, "query", "get_node_by_labels", "plain", "%s -> %s, expected %s" % (labs, got, want))
            continue
        else:
            raise ValueError(op)
        # nodes that an edit removed or rebuilt (unwrap, group, identity removal) have no known label status any more
        M.fixed = {k: v for k, v in M.fixed.items() if k in M.desc and (k not in known or known[k] == id(M.desc[k]) or op in ("add", "insert", "replace"))}
        verify(circ, M, sub, site, step)
        if left_behind and op != "copy":
            for old_circ, old_model in left_behind:
                try:
                    verify(old_circ, old_model, sub, site, step)
                except Violation as v_:
                    raise Violation(sub, "copy-aliased", site, "plain", "an edit of a copy changed the circuit it was copied from: %s" % (str(v_)[:300],))
            cl.add("source_checked_after_editing_copy")
    return Info(nontrivial=nontrivial, classes=sorted(cl))


# ------------------------------------------------------------------------------------------- strategies
def st_edit(max_reg=3):
    i = st.integers(0, 63)
    one = st.one_of(st.tuples(st.sampled_from(gc.ONE)), st.tuples(st.just("W"), st.lists(st.sampled_from(gc.ONE), min_size=1, max_size=3))).map(list)

    @st.composite
    def opd(draw, allow_new):
        hi = max_reg if allow_new else max_reg - 1
        k = draw(st.sampled_from(["one", "one", "wrap", "two", "two", "cc", "mz"]))
        t = draw(st.sampled_from("ep"))
        r = draw(st.integers(0, hi))
        if k == "one":
            return [draw(st.sampled_from(gc.ONE)), t, r]
        if k == "wrap":
            return ["W", t, r, draw(st.lists(st.sampled_from(gc.ONE), min_size=1, max_size=3))]
        if k == "mz":
            return ["MZ", t, r, draw(st.integers(0, hi))]
        t2 = draw(st.sampled_from("ep"))
        r2 = draw(st.integers(0, hi))
        if k == "two":
            return [draw(st.sampled_from(gc.TWO)), t, r, t2, r2]
        return [draw(st.sampled_from(gc.CC)), t, r, t2, r2, draw(st.integers(0, hi))]

    return st.one_of(
        st.tuples(st.just("add"), opd(True)),
        st.tuples(st.just("add"), opd(False)),
        st.tuples(st.just("insert"), opd(False), i, i),
        st.tuples(st.just("insert"), opd(False), i, i),
        st.tuples(st.just("cpair"), st.sampled_from("ep"), st.integers(0, max_reg - 1), st.sampled_from("ep"), st.integers(0, max_reg - 1),
                  st.integers(0, 1), st.lists(st.sampled_from(["MZ", "MZ"] + gc.CC), min_size=2, max_size=2), st.sampled_from(gc.TWO), i, i,
                  st.booleans()),
        st.tuples(st.just("add_f"), opd(False)),
        st.tuples(st.just("insert_f"), opd(False), i, i),
        st.tuples(st.just("replace_f"), i, one, i),
        st.tuples(st.just("remove"), i),
        st.tuples(st.just("replace"), i, one, i),
        st.tuples(st.just("replace"), i, one, i),
        st.tuples(st.just("unwrap")),
        st.tuples(st.just("group")),
        st.tuples(st.just("rmid")),
        st.tuples(st.just("addreg"), st.integers(0, 2)),
        st.tuples(st.just("copy")),
        st.tuples(st.just("query"), st.lists(st.sampled_from(["one-qubit", "two-qubit", "Hadamard", "CNOT", "Emitter", "Photonic",
                                                                "Emitter-Photonic", "OneQubitGateWrapper", "Identity"]), min_size=1, max_size=2)),
    ).map(list)


def strat_history(tier):
    L = 40 if tier == "quick" else 80
    return st.fixed_dictionaries({
        "ne": st.integers(0, 3), "np": st.integers(0, 3), "nc": st.integers(0, 2),
        "init": st.just([]),
        "steps": st.lists(st_edit(), min_size=1, max_size=L),
    })


def strat_many(tier):
    """the same histories on circuits with 10-12 registers of each type (register names with two digits)"""
    L = 30 if tier == "quick" else 60
    return st.fixed_dictionaries({
        "ne": st.integers(10, 12), "np": st.integers(10, 12), "nc": st.integers(0, 2),
        "init": st.just([]),
        "steps": st.lists(st_edit(max_reg=12), min_size=1, max_size=L),
    })


SMALL_EDITS = (
    [["add", [g, t, 0]] for g in ("H", "I") for t in "ep"]
    + [["add", ["W", "e", 0, ["H", "P"]]], ["add", ["CNOT", "e", 0, "p", 0]], ["add", ["MCR", "e", 0, "p", 0, 0]], ["add", ["MZ", "p", 0, 0]]]
    + [["insert", ["X", "e", 0], k, 0] for k in range(2)] + [["insert", ["CZ", "p", 0, "e", 0], k, j] for k in range(2) for j in range(2)]
    + [["remove", 0], ["remove", 1], ["replace", 0, ["Z"], 1], ["unwrap"], ["group"], ["rmid"], ["addreg", 0], ["copy"]]
)


def enum_small(tier, seed):
    import itertools

    L = 2 if tier == "quick" else 3
    cases = []
    for l in range(1, L + 1):
        for hist in itertools.product(SMALL_EDITS, repeat=l):
            cases.append({"ne": 1, "np": 1, "nc": 1, "init": [], "steps": [list(h) for h in hist]})
    return cases, True


SUBS = [
    Sub("history", check_history, strategy=strat_history, n={"quick": 300, "thorough": 3000}),
    Sub("many_registers", lambda c: check_history(c, "history"), strategy=strat_many, n={"quick": 60, "thorough": 1000},
        doc="histories on circuits with 10-12 emitters and photons (two-digit register names)"),
    Sub("small", lambda c: check_history(c, "history"), enum=enum_small,
        doc="all histories of length <=2 (quick) / <=3 (thorough) over %d edits on 1 emitter + 1 photon + 1 classical register" % len(SMALL_EDITS)),
]
