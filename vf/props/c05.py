"""C05 - stabilizer state comparison and fidelity are exact."""
import numpy as np
from hypothesis import strategies as st

from ..core import Info, Violation, guarded
from ..engine import Sub
from ..gen import stab as gs
from ..ref import pauli as rp
from ..ref import statevec as sv

ID = "C05"
RULE = (
    "pairs of n-qubit stabilizer states (Clifford words on |0..0> in the reference), each in an independent random "
    "presentation (generating-set change + destabilizer mixing + destabilizer signs), incl. related pairs (same state, "
    "one sign flipped, one local/entangling gate apart); complete pairs x 2 presentations for n<=2 (and n=3 in "
    "thorough). Non-trivial = 0<F<1, or F=0 with identical unsigned groups, or F=1 with different presentations; at "
    "least one side not in graph form. Distinct = SHA-1 of the descriptor."
)
ASSUMPTIONS = ["reference |<a|b>|^2 from dense vectors (n<=8), values are 0 or 2^-k, tolerance 1e-9",
               "n >= 9: reference overlap by projecting one generating set onto the other in the Pauli algebra (vf/ref/pauli.py, self-tested against dense vectors)"]
REQUIRED_CLASSES = {"pairs": ["F=1", "F=0_sign_only", "F=0_other", "0<F<1", "non_graph_form", "negative_sign", "has_Y", "edited_in_place_then_compared"],
                    "large": ["F=1", "F=0_sign_only", "0<F<1", "non_graph_form", "negative_sign", "has_Y"]}


def _fid(sub, cls, ta, tb):
    import graphiq.backends.stabilizer.functions.metric as sfm

    return guarded(sub, cls, sfm.fidelity, ta.copy(), tb.copy())


def _snapshot(t):
    return (np.array(t.table).copy(), np.array(t.phase).copy(), np.array(t.iphase).copy())


def _unchanged(t, snap):
    return np.array_equal(t.table, snap[0]) and np.array_equal(t.phase, snap[1]) and np.array_equal(t.iphase, snap[2])


def check_pair(case, sub="pairs"):
    import graphiq.backends.stabilizer.functions.metric as sfm
    from graphiq.backends.stabilizer.functions.stabilizer import canonical_form
    from graphiq.backends.stabilizer.state import Stabilizer
    from graphiq.metrics import Infidelity
    from graphiq.state import QuantumState

    a, b = case["a"], case["b"]
    n = a["n"]
    b = dict(b, n=n)
    Sa, Da, va = gs.present(a)
    Sb, Db, vb = gs.present(b)
    Sa2, Da2, _ = gs.present(dict(a, rowops=case.get("alt", []), M=None))
    F = sv.overlap2(va, vb)
    k = round(-np.log2(F)) if F > 1e-12 else None
    assert F < 1e-12 or abs(F - 2.0 ** (-k)) < 1e-9
    same_unsigned = rp.group_key([(p[0], p[1], 0) for p in Sa], n) == rp.group_key([(p[0], p[1], 0) for p in Sb], n)
    cl = sorted(set(gs.classes(Sa, n) + gs.classes(Sb, n)))
    if F > 1 - 1e-9:
        fc = "F=1"
    elif F < 1e-12:
        fc = "F=0_sign_only" if same_unsigned else "F=0_other"
    else:
        fc = "0<F<1"
    cl.append(fc)
    icls = fc
    ta = gs.clifford_tableau(Sa, Da, n)
    tb = gs.clifford_tableau(Sb, Db, n)
    ta2 = gs.clifford_tableau(Sa2, Da2, n)
    sa, sb = _snapshot(ta), _snapshot(tb)
    f_ab = guarded(sub, icls, sfm.fidelity, ta, tb)
    if not (_unchanged(ta, sa) and _unchanged(tb, sb)):
        raise Violation(sub, "argument-mutated", "metric.fidelity", icls, "fidelity changed one of its arguments")
    f_ba = guarded(sub, icls, sfm.fidelity, tb, ta)
    if abs(f_ab - F) > 1e-9:
        raise Violation(sub, "fidelity-value", "metric.fidelity", icls, "fidelity=%r, |<a|b>|^2=%r" % (float(f_ab), F))
    if abs(f_ba - f_ab) > 1e-12:
        raise Violation(sub, "fidelity-asymmetric", "metric.fidelity", icls, "%r vs %r" % (float(f_ab), float(f_ba)))
    ip = guarded(sub, icls, sfm.inner_product, ta, tb)
    if abs(abs(ip) ** 2 - F) > 1e-9:
        raise Violation(sub, "inner-product", "metric.inner_product", icls, "|ip|^2=%r, ref %r" % (float(abs(ip) ** 2), F))
    # same state, other presentation
    f_aa = guarded(sub, icls, sfm.fidelity, ta, ta2)
    if abs(f_aa - 1) > 1e-9:
        raise Violation(sub, "fidelity-value", "metric.fidelity", "same-state", "two presentations of one state: F=%r" % float(f_aa))
    # the same object as both arguments
    f_tt = guarded(sub, icls, sfm.fidelity, ta, ta)
    if abs(f_tt - 1) > 1e-9:
        raise Violation(sub, "fidelity-value", "metric.fidelity", "same-object", "fidelity(t, t) with one object as both arguments = %r" % float(f_tt))
    if not (_unchanged(ta, sa) and _unchanged(tb, sb)):
        raise Violation(sub, "argument-mutated", "metric.fidelity", icls, "a fidelity call changed one of its arguments")
    # equality and canonical form
    eq = guarded(sub, icls, lambda: Stabilizer(ta.copy()) == Stabilizer(tb.copy()))
    if bool(eq) != (F > 1 - 1e-9):
        raise Violation(sub, "equality", "Stabilizer.__eq__", icls, "== gives %s, states %s" % (eq, "equal" if F > 1 - 1e-9 else "differ"))
    eq2 = guarded(sub, icls, lambda: Stabilizer(ta.copy()) == Stabilizer(ta2.copy()))
    if not eq2:
        raise Violation(sub, "equality", "Stabilizer.__eq__", "same-state", "two presentations of one state compare unequal")
    ca = guarded(sub, icls, lambda: canonical_form(ta.to_stabilizer()))
    ca2 = guarded(sub, icls, lambda: canonical_form(ta2.to_stabilizer()))
    cb = guarded(sub, icls, lambda: canonical_form(tb.to_stabilizer()))
    if not (ca == ca2):
        raise Violation(sub, "canonical-form", "canonical_form", "same-state", "canonical form depends on the generating set")
    if (ca == cb) != (F > 1 - 1e-9):
        raise Violation(sub, "canonical-form", "canonical_form", icls, "canonical forms equal=%s but F=%r" % (ca == cb, F))
    if not rp.denotes(ca, va, n):
        raise Violation(sub, "canonical-form", "canonical_form", icls, "canonical form denotes another state")
    # a tableau object that has been compared is edited in place by a Pauli gate (only signs change) and compared again
    import graphiq.backends.stabilizer.functions.transformation as tr_

    qd = len(a.get("word", [])) % n
    gname = ["X", "Z", "Y"][len(b.get("word", [])) % 3]
    ta_edit = guarded(sub, icls, {"X": tr_.x_gate, "Z": tr_.z_gate, "Y": tr_.y_gate}[gname], ta, qd)
    va2 = sv.apply1(va, n, qd, sv.GATES[gname])
    F2 = sv.overlap2(va2, vb)
    f2 = guarded(sub, icls, sfm.fidelity, ta_edit, tb)
    if abs(f2 - F2) > 1e-9:
        raise Violation(sub, "fidelity-value", "metric.fidelity", "edited_in_place",
                        "after a Pauli %s applied in place to an operand compared before: fidelity=%r, |<a|b>|^2=%r" % (gname, float(f2), F2))
    f2s = guarded(sub, icls, sfm.fidelity, ta_edit, ta_edit.copy())
    if abs(f2s - 1) > 1e-9:
        raise Violation(sub, "fidelity-value", "metric.fidelity", "edited_in_place", "F(t, copy of t) = %r after an in-place Pauli" % float(f2s))
    # undo (Paulis are involutions up to phase) so that the clauses below see the original state
    ta = guarded(sub, icls, {"X": tr_.x_gate, "Z": tr_.z_gate, "Y": tr_.y_gate}[gname], ta_edit, qd)
    cl.append("edited_in_place_then_compared")
    # metric object on stabilizer representations
    inf = guarded(sub, icls, lambda: Infidelity(QuantumState(ta.copy(), rep_type="s")).evaluate(
        QuantumState(tb.copy(), rep_type="s"), None))
    if abs((1 - inf) - F) > 1e-9:
        raise Violation(sub, "infidelity-metric", "metrics.Infidelity", icls, "1-inf=%r ref %r" % (float(1 - inf), F))
    nontrivial = (fc in ("0<F<1", "F=0_sign_only") or (fc == "F=1" and (a.get("rowops") or b.get("rowops")))) and (
        "non_graph_form" in cl)
    return Info(nontrivial=nontrivial, classes=cl)


def check_large(case, sub="large"):
    """9..24 qubits: the same clauses against the Pauli-algebra overlap (no dense vectors)"""
    import graphiq.backends.stabilizer.functions.metric as sfm
    from graphiq.backends.stabilizer.functions.stabilizer import canonical_form
    from graphiq.backends.stabilizer.state import Stabilizer

    a, b = case["a"], case["b"]
    n = a["n"]
    b = dict(b, n=n)
    Sa, Da, _ = gs.present(a, dense=False)
    Sb, Db, _ = gs.present(b, dense=False)
    Sa2, Da2, _ = gs.present(dict(a, rowops=case.get("alt", []), M=None), dense=False)
    F = rp.stabilizer_overlap2(Sa, Sb, n)
    if abs(rp.stabilizer_overlap2(Sb, Sa, n) - F) > 1e-12 or rp.stabilizer_overlap2(Sa, Sa2, n) != 1.0:
        raise AssertionError("reference overlap inconsistent")
    same_unsigned = rp.group_key([(p[0], p[1], 0) for p in Sa], n) == rp.group_key([(p[0], p[1], 0) for p in Sb], n)
    fc = "F=1" if F == 1.0 else (("F=0_sign_only" if same_unsigned else "F=0_other") if F == 0.0 else "0<F<1")
    cl = sorted(set(gs.classes(Sa, n) + gs.classes(Sb, n))) + [fc, "n>=9"]
    icls = fc
    ta, tb, ta2 = gs.clifford_tableau(Sa, Da, n), gs.clifford_tableau(Sb, Db, n), gs.clifford_tableau(Sa2, Da2, n)
    f_ab = guarded(sub, icls, sfm.fidelity, ta, tb)
    f_ba = guarded(sub, icls, sfm.fidelity, tb, ta)
    if abs(f_ab - F) > 1e-9:
        raise Violation(sub, "fidelity-value", "metric.fidelity", icls, "fidelity=%r, |<a|b>|^2=%r (n=%d)" % (float(f_ab), F, n))
    if abs(f_ba - f_ab) > 1e-12:
        raise Violation(sub, "fidelity-asymmetric", "metric.fidelity", icls, "%r vs %r" % (float(f_ab), float(f_ba)))
    f_aa = guarded(sub, icls, sfm.fidelity, ta, ta2)
    if abs(f_aa - 1) > 1e-9:
        raise Violation(sub, "fidelity-value", "metric.fidelity", "same-state", "two presentations of one state: F=%r" % float(f_aa))
    eq = guarded(sub, icls, lambda: Stabilizer(ta.copy()) == Stabilizer(tb.copy()))
    if bool(eq) != (F == 1.0):
        raise Violation(sub, "equality", "Stabilizer.__eq__", icls, "== gives %s, states %s" % (eq, "equal" if F == 1.0 else "differ"))
    if not guarded(sub, icls, lambda: Stabilizer(ta.copy()) == Stabilizer(ta2.copy())):
        raise Violation(sub, "equality", "Stabilizer.__eq__", "same-state", "two presentations of one state compare unequal")
    ca = guarded(sub, icls, lambda: canonical_form(ta.to_stabilizer()))
    ca2 = guarded(sub, icls, lambda: canonical_form(ta2.to_stabilizer()))
    cb = guarded(sub, icls, lambda: canonical_form(tb.to_stabilizer()))
    if not (ca == ca2):
        raise Violation(sub, "canonical-form", "canonical_form", "same-state", "canonical form depends on the generating set")
    if (ca == cb) != (F == 1.0):
        raise Violation(sub, "canonical-form", "canonical_form", icls, "canonical forms equal=%s but F=%r" % (ca == cb, F))
    if rp.group_key(rp.stabilizer_paulis(ca), n) != rp.group_key(Sa, n):
        raise Violation(sub, "canonical-form", "canonical_form", icls, "canonical form denotes another state")
    return Info(nontrivial=(fc in ("0<F<1", "F=0_sign_only") or fc == "F=1"), classes=cl)


@st.composite
def strat_large(draw, tier="quick"):
    a = draw(st.one_of(gs.st_state(9, 16 if tier == "quick" else 24, max_word=60, max_rowops=15),
                       gs.st_state(9, 16 if tier == "quick" else 24, max_word=60, max_rowops=15),
                       gs.st_state(62, 68, max_word=100, max_rowops=15)))  # beyond 64: integer packing / dtype limits
    n = a["n"]
    kind = draw(st.sampled_from(["indep", "same", "sign", "local", "ent", "few", "few"]))
    extra = []
    if kind == "indep":
        b = draw(gs.st_state(n, n, max_word=60, max_rowops=15))
    else:
        if kind == "sign":
            extra = [[draw(st.sampled_from(["X", "Z", "Y"])), draw(st.integers(0, n - 1))]]
        elif kind == "local":
            extra = [[draw(st.sampled_from(["H", "P", "Pdag"])), draw(st.integers(0, n - 1))]]
        elif kind == "ent":
            extra = [[draw(st.sampled_from(["CNOT", "CZ"])), draw(st.integers(0, n - 1)), draw(st.integers(0, n - 1))]]
        elif kind == "few":
            extra = draw(gs.st_word(n - 1, 5))
        b = {"n": n, "word": a["word"] + extra, "rowops": draw(gs.st_rowops(n - 1, 15))}
    return {"a": a, "b": b, "alt": draw(gs.st_rowops(n - 1, 12))}


@st.composite
def strat_pair(draw, tier="quick"):
    mx = 6 if tier == "quick" else 8
    a = draw(gs.st_state(1, mx))
    n = a["n"]
    kind = draw(st.sampled_from(["indep", "same", "sign", "local", "ent", "few"]))
    if kind == "indep":
        b = draw(gs.st_state(n, n))
    else:
        extra = []
        if kind == "sign":
            extra = [[draw(st.sampled_from(["X", "Z", "Y"])), draw(st.integers(0, n - 1))]]
        elif kind == "local":
            extra = [[draw(st.sampled_from(["H", "P", "Pdag"])), draw(st.integers(0, n - 1))]]
        elif kind == "ent":
            extra = [[draw(st.sampled_from(["CNOT", "CZ"])), draw(st.integers(0, n - 1)), draw(st.integers(0, n - 1))]]
        elif kind == "few":
            extra = draw(gs.st_word(n - 1, 4)) if n > 0 else []
        b = {"n": n, "word": a["word"] + extra, "rowops": draw(gs.st_rowops(max(n - 1, 0), 12))}
    alt = draw(gs.st_rowops(max(n - 1, 0), 10))
    return {"a": a, "b": b, "alt": alt}


_STATES = {}


def _states(n):
    if n not in _STATES:
        _STATES[n] = gs.all_states(n)
    return _STATES[n]


def enum_pairs(tier, seed):
    import random

    rng = random.Random(seed)
    cases = []
    exhaustive = True
    for n in (1, 2):
        ws = _states(n)
        ms = gs.all_invertible(n)
        for wa in ws:
            for wb in ws:
                cases.append({"a": {"n": n, "word": wa, "M": rng.choice(ms), "rowops": [["dsign", rng.randrange(n)]]},
                              "b": {"n": n, "word": wb, "M": rng.choice(ms), "rowops": [["dmix", rng.randrange(n), rng.randrange(n)]]},
                              "alt": [["mul", 0, 1], ["swap", 0, 1]]})
    ws = _states(3)
    ms = gs.all_invertible(3)
    import os
    if tier == "thorough" and os.environ.get("VERIF_FULL"):
        for wa in ws:
            for wb in ws:
                cases.append({"a": {"n": 3, "word": wa, "M": rng.choice(ms)}, "b": {"n": 3, "word": wb, "M": rng.choice(ms)},
                              "alt": [["mul", rng.randrange(3), rng.randrange(3)], ["swap", 0, 2]]})
    else:
        exhaustive = False
        for _ in range(6000 if tier == "quick" else 250000):
            cases.append({"a": {"n": 3, "word": rng.choice(ws), "M": rng.choice(ms)},
                          "b": {"n": 3, "word": rng.choice(ws), "M": rng.choice(ms)},
                          "alt": [["mul", rng.randrange(3), rng.randrange(3)], ["swap", 0, 2]]})
    return cases, exhaustive


SUBS = [
    Sub("pairs", check_pair, strategy=lambda tier: strat_pair(tier), n={"quick": 250, "thorough": 4000},
        doc="random related/independent pairs, n<=6 (quick) / 8 (thorough), independent presentations"),
    Sub("large", check_large, strategy=lambda tier: strat_large(tier), n={"quick": 40, "thorough": 1500},
        doc="9..16 (quick) / 24 (thorough) qubits against the Pauli-algebra overlap (self-tested against dense vectors)"),
    Sub("complete", lambda c: check_pair(c, "pairs"), enum=enum_pairs,
        doc="all ordered pairs of the 6 / 60 stabilizer states for n=1,2 (n=3: 6000 sampled pairs in quick, 250k in thorough, all 1080^2 with "
            "VERIF_FULL=1), random generating set per side"),
]
