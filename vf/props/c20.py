"""C20 - the single-qubit Clifford library is complete, closed and consistently ordered."""
import itertools

import numpy as np
from hypothesis import strategies as st

from ..core import Info, Violation, guarded
from ..engine import Sub
from ..gen import circuits as gc
from ..ref import qasm2
from ..ref import statevec as sv
from . import c13

ID = "C20"
RULE = (
    "finite domain enumerated completely: the 24 library entries, their 24x24 products, all words over {I,H,P,X,Y,Z} up to "
    "length 4 (quick) / 6 (thorough) for simplify_local_clifford, all 24 wrappers + all words of length <=3 over "
    "{I,H,P,Pdag,X,Y,Z} as wrappers on an emitter and on a photon in both backends (Choi-state test: the register is first "
    "entangled with a partner); rejection of non-Clifford / non-unitary / wrongly shaped matrices (generated). Non-trivial = "
    "word whose product is neither a Pauli nor the identity and whose simplified form differs from the input."
)
REQUIRED_CLASSES = {"reject": ["T", "haar", "near", "nonunitary", "scaled", "zero", "shape"]}
ASSUMPTIONS = ["a unitary at a rotation angle >= 1e-3 rad from every library member counts as non-Clifford (graphiq's own entrywise comparison tolerates ~1e-5)",
               "reference 2x2 gate matrices from vf/ref/statevec.py; list order = matrix product (the last listed gate acts first)"]

NAME = {"Identity": "I", "Hadamard": "H", "Phase": "P", "PhaseDagger": "Pdag", "SigmaX": "X", "SigmaY": "Y", "SigmaZ": "Z"}


def mat(word):
    u = np.eye(2, dtype=complex)
    for g in word:
        u = u @ sv.GATES[g]
    return u


def equiv(a, b):
    return abs(abs(np.trace(a.conj().T @ b)) - 2) < 1e-9


def lib():
    import graphiq.circuit.ops as ops

    return [[NAME[c.__name__] for c in entry] for entry in ops.one_qubit_cliffords()]


def classes_of_word(w):
    import graphiq.circuit.ops as ops

    m = {"I": ops.Identity, "H": ops.Hadamard, "P": ops.Phase, "Pdag": ops.PhaseDagger, "X": ops.SigmaX, "Y": ops.SigmaY, "Z": ops.SigmaZ}
    return [m[g] for g in w]


def check_library(case, sub="library"):
    import graphiq.circuit.ops as ops

    entries = lib()
    if len(entries) != 24:
        raise Violation(sub, "count", "one_qubit_cliffords", "plain", "%d entries" % len(entries))
    mats = [mat(e) for e in entries]
    for i in range(24):
        if abs(np.linalg.norm(mats[i].conj().T @ mats[i] - np.eye(2))) > 1e-9:
            raise Violation(sub, "not-unitary", "one_qubit_cliffords", "plain", str(entries[i]))
        for j in range(i):
            if equiv(mats[i], mats[j]):
                raise Violation(sub, "duplicate", "one_qubit_cliffords", "plain", "%s ~ %s" % (entries[i], entries[j]))
    for i in range(24):
        for j in range(24):
            if not any(equiv(mats[i] @ mats[j], m) for m in mats):
                raise Violation(sub, "not-closed", "one_qubit_cliffords", "plain", "%s * %s" % (entries[i], entries[j]))
    # the library's own matrix maps agree with the reference
    got = list(guarded(sub, "plain", lambda: list(ops.local_cliffords_name_to_matrix_map())))
    if len(got) != 24 or any(np.linalg.norm(np.asarray(g) - m) > 1e-9 for g, m in zip(got, mats)):
        raise Violation(sub, "matrix-map", "local_cliffords_name_to_matrix_map", "plain", "differs from the reference products")
    for e, m in zip(entries, mats):
        g = guarded(sub, "plain", ops.local_clifford_to_matrix_map, classes_of_word(e))
        if np.linalg.norm(np.asarray(g) - m) > 1e-9:
            raise Violation(sub, "matrix-map", "local_clifford_to_matrix_map", "plain", str(e))
    return Info(nontrivial=True, classes=["library"])


def check_simplify(case, sub="simplify"):
    import graphiq.circuit.ops as ops

    w = case["word"]
    u = mat(w)
    out = guarded(sub, "plain", ops.simplify_local_clifford, classes_of_word(w))
    names = [NAME[c.__name__] for c in out]
    if names not in lib():
        raise Violation(sub, "not-a-member", "simplify_local_clifford", "plain", "%s -> %s" % (w, names))
    if not equiv(mat(names), u):
        raise Violation(sub, "wrong-unitary", "simplify_local_clifford", "plain", "%s -> %s" % (w, names))
    got = guarded(sub, "plain", ops.find_local_clifford_by_matrix, u * np.exp(0.7j))
    if not equiv(mat([NAME[c.__name__] for c in got]), u):
        raise Violation(sub, "wrong-unitary", "find_local_clifford_by_matrix", "plain", str(w))
    # the returned lists belong to the caller: after editing them the same questions get the same answers
    if isinstance(out, list) and isinstance(got, list):
        out.append(ops.SigmaX)
        got.insert(0, ops.Hadamard)
        out2 = guarded(sub, "asked_again", ops.simplify_local_clifford, classes_of_word(w))
        got2 = guarded(sub, "asked_again", ops.find_local_clifford_by_matrix, u)
        for res, who in ((out2, "simplify_local_clifford"), (got2, "find_local_clifford_by_matrix")):
            nm = [NAME[c.__name__] for c in res]
            if nm not in lib() or not equiv(mat(nm), u):
                raise Violation(sub, "wrong-unitary", who, "asked_again", "%s -> %s after the caller edited an earlier result" % (w, nm))
    pauli = any(equiv(u, sv.GATES[g]) for g in "IXYZ")
    return Info(nontrivial=(not pauli and names != w), classes=["pauli" if pauli else "nonpauli"])


def check_reject(case, sub="reject"):
    import graphiq.circuit.ops as ops

    kind = case["kind"]
    rng = np.random.default_rng(case["seed"])
    if kind == "T":
        m = np.diag([1, np.exp(1j * np.pi / 4)])
        if case["seed"] % 2:
            m = mat(lib()[case["seed"] % 24]) @ m
    elif kind == "haar":
        a = rng.normal(size=(2, 2)) + 1j * rng.normal(size=(2, 2))
        m, _ = np.linalg.qr(a)
        if any(equiv(m, x) for x in (mat(e) for e in lib())):
            return Info(False, ["accidental_clifford"])
    elif kind == "near":
        # a library member followed by a rotation by 1e-3 .. 0.3 rad about a random axis, times a random global phase:
        # unitary, but not a Clifford (the library's own entrywise comparison tolerates about 1e-5)
        th = [1e-3, 2e-3, 5e-3, 1e-2, 3e-2, 0.1, 0.3][case["seed"] % 7]
        ax = rng.normal(size=3)
        ax = ax / np.linalg.norm(ax)
        gen = ax[0] * sv.GATES["X"] + ax[1] * sv.GATES["Y"] + ax[2] * sv.GATES["Z"]
        rot = np.cos(th / 2) * np.eye(2) - 1j * np.sin(th / 2) * gen
        m = np.exp(1j * rng.uniform(0, 2 * np.pi)) * (mat(lib()[(case["seed"] // 7) % 24]) @ rot)
    elif kind == "nonunitary":
        m = rng.normal(size=(2, 2)) + 1j * rng.normal(size=(2, 2))
    elif kind == "scaled":
        m = (0.5 + (case["seed"] % 7)) * mat(lib()[case["seed"] % 24])
    elif kind == "zero":
        m = np.zeros((2, 2))
    else:
        m = np.eye(3) if case["seed"] % 2 else np.eye(4)
    try:
        r = ops.find_local_clifford_by_matrix(m)
    except ValueError:
        return Info(True, [kind])
    except Exception as e:
        if kind == "shape":
            return Info(True, [kind])  # any rejection is fine for a wrongly shaped input
        raise Violation(sub, "exception:" + type(e).__name__, "find_local_clifford_by_matrix", kind, str(e)[:200])
    raise Violation(sub, "accepted", "find_local_clifford_by_matrix", kind, "matrix accepted as %s" % ([c.__name__ for c in r],))


def check_backend(case, sub="backend"):
    w = case["word"]
    t = case["reg"]
    u = mat(w)
    # entangle the register with a partner first, so that the final state fixes the unitary up to a global phase
    other = "p" if t == "e" else "e"
    desc = {"ne": 1, "np": 1, "nc": 0, "ops": [["H", other, 0], ["CNOT", other, 0, t, 0], ["W", t, 0, list(w)]]}
    n = 2
    v = sv.zero_state(n)
    qo, qt = gc.qindex(desc, other, 0), gc.qindex(desc, t, 0)
    v = sv.apply1(v, n, qo, sv.GATES["H"])
    v = sv.cnot(v, n, qo, qt)
    v = sv.apply1(v, n, qt, u)
    circ = gc.build(desc)
    for backend in ("stab", "dm"):
        s = c13.compile_state(sub, backend, circ, backend, 0, False)
        if not c13.state_matches(s, backend, v, n):
            raise Violation(sub, "wrapper-order", backend, t, "wrapper %s on %s: backend %s does not apply the matrix product of the list" % (w, t, backend))
    # the same wrapper carrying ONE noise model for the whole gate (an identity Pauli error: no effect) goes through another
    # branch of unwrap(): it must denote the same unitary, with noise simulation off and on
    import graphiq.noise.noise_models as nm

    circ1 = gc.build(desc, [None, None, nm.PauliError("I")])
    for backend in ("stab", "dm"):
        for noise_on in (False, True):
            s = c13.compile_state(sub, backend, circ1, backend, 0, noise_on)
            if not c13.state_matches(s, backend, v, n):
                raise Violation(sub, "wrapper-order", backend, t + ":single_noise_model",
                                "wrapper %s with one (identity) noise model for the whole gate, noise simulation %s: backend %s does not apply the matrix product of the list" % (
                                    w, "on" if noise_on else "off", backend))
    # exported composite gate, standard reading
    text = guarded(sub, "qasm", circ.to_openqasm)
    try:
        vq, nq, _, _ = qasm2.Program(text).run(0)
    except qasm2.QasmError as e:
        raise Violation(sub, "invalid-qasm", "to_openqasm", t, str(e)[:200])
    if not sv.same_state(vq, v):
        raise Violation(sub, "wrapper-order", "to_openqasm", t, "wrapper %s: exported composite gate denotes another unitary" % (w,))
    pauli = any(equiv(u, sv.GATES[g]) for g in "IXYZ")
    return Info(nontrivial=(len(w) >= 2 and not pauli), classes=[t, "len%d" % min(len(w), 4)])


def enum_library(tier, seed):
    return [{"k": 0}, {"k": 1}], True


def enum_simplify(tier, seed):
    L = 4 if tier == "quick" else 6
    cases = []
    for l in range(1, L + 1):
        for w in itertools.product(["I", "H", "P", "X", "Y", "Z"], repeat=l):
            cases.append({"word": list(w)})
    for a in lib():
        for b in lib():
            cases.append({"word": a + b})
    return cases, True


def enum_backend(tier, seed):
    cases = []
    words = [list(w) for w in lib()]
    L = 3 if tier == "quick" else 4
    for l in range(1, L + 1):
        for w in itertools.product(gc.ONE, repeat=l):
            words.append(list(w))
    for w in words:
        for t in "ep":
            cases.append({"word": w, "reg": t})
    return cases, True


def strat_reject(tier):
    return st.fixed_dictionaries({"kind": st.sampled_from(["T", "haar", "haar", "near", "near", "nonunitary", "scaled", "zero", "shape"]), "seed": st.integers(0, 10**6)})


SUBS = [
    Sub("library", check_library, enum=enum_library, doc="24 entries, pairwise inequivalent, closed under multiplication, matrix maps"),
    Sub("simplify", check_simplify, enum=enum_simplify, doc="all words over {I,H,P,X,Y,Z} up to length 4/6 and all 576 concatenations of library members"),
    Sub("backend", check_backend, enum=enum_backend, doc="all 24 wrappers + all words up to length 3/4 over 7 gates, on an emitter and on a photon, both backends + exported openQASM"),
    Sub("reject", check_reject, strategy=strat_reject, n={"quick": 40, "thorough": 400}),
]
