"""C03 - height function = bipartite entanglement; the deterministic solver's emitter budget is its maximum and
every photon is emitted exactly once."""
import numpy as np
from hypothesis import strategies as st

from ..core import Info, Violation, guarded
from ..engine import Sub
from ..gen import graphs as gg
from ..gen import stab as gs
from ..ref import graphs as rg
from ..ref import pauli as rp
from ..ref import statevec as sv

ID = "C03"
RULE = (
    "(i) labelled graphs (all n<=4/5, random n<=12): height_func_list(I, adj), height_dict, height_max vs GF(2) cut ranks; "
    "(ii) stabilizer states in random presentations (all states x all generating sets n<=2/3; random n<=8 vs Schmidt rank "
    "of the dense vector, n<=30 vs GF(2) rank formula), two presentations of each state must agree; (iii) "
    "TimeReversedSolver on graphs without isolated vertices: n_emitters = max cut rank, each photon is the target of "
    "exactly one emitter->photon CNOT. Non-trivial = state presentation not in graph form containing a Y with a "
    "non-monotone entropy profile or an entropy >= 2 bits, or a solver target needing >=2 emitters. Distinct = SHA-1."
)
ASSUMPTIONS = ["entropy across cut k = log2 Schmidt rank (dense, n<=8) = rank_GF2(generators restricted to qubits >k) - (n-k-1)",
               "solver clause restricted to graphs without isolated vertices (known finding of C02: the solver raises on them)"]
REQUIRED_CLASSES = {"states": ["has_Y", "non_graph_form", "non_monotone"], "solver": ["emitters>=2"]}


def entropy_profile_gf2(S, n):
    """S: reference signed Paulis. entropy(k) = rank(restriction to qubits k+1..n-1) - (n-k-1) ... via
    S_A = |A| - dim(group elements supported in A); equivalently rank of generators projected on B minus |B|."""
    out = []
    for k in range(n):
        maskB = 0
        for q in range(k + 1, n):
            maskB |= 1 << q
        rows = [((p[0] & maskB)) | ((p[1] & maskB) << n) for p in S]
        out.append(rp.gf2_rank(rows) - (n - k - 1))
    return out


def non_monotone(prof):
    ups = any(prof[i + 1] > prof[i] for i in range(len(prof) - 1))
    downs = any(prof[i + 1] < prof[i] for i in range(len(prof) - 2))
    return ups and downs


def check_graph(case, sub="graphs"):
    import graphiq.backends.stabilizer.functions.height as height

    n, mask = case["n"], case["mask"]
    adj = rg.adj_from_mask(n, mask)
    want = rg.cut_ranks(n, mask)
    x, z = np.eye(n, dtype=int), adj.copy()
    got = guarded(sub, "graph", height.height_func_list, x, z)
    if not np.array_equal(x, np.eye(n, dtype=int)) or not np.array_equal(z, adj):
        raise Violation(sub, "argument-mutated", "height_func_list", "graph", "inputs changed")
    if list(got) != want:
        raise Violation(sub, "height-value", "height_func_list", "graph", "got %s, cut ranks %s" % (list(got), want))
    for dt in (bool, float):
        got_dt = guarded(sub, "graph:dtype_%s" % dt.__name__, height.height_func_list, np.eye(n).astype(dt), adj.astype(dt))
        if list(got_dt) != want:
            raise Violation(sub, "height-value", "height_func_list", "graph:dtype_%s" % dt.__name__, "x, z given as %s arrays: got %s, cut ranks %s" % (dt.__name__, list(got_dt), want))
    g = gg.to_nx(case)
    hd = guarded(sub, "graph", height.height_dict, graph=g)
    if [hd[i] for i in range(n)] != want or hd[-1] != 0:
        raise Violation(sub, "height-value", "height_dict", "graph", "got %s, cut ranks %s" % (hd, want))
    hm = guarded(sub, "graph", height.height_max, graph=g)
    if hm != max(want + [0]):
        raise Violation(sub, "height-max", "height_max", "graph", "%s vs %s" % (hm, max(want)))
    hm2 = guarded(sub, "graph", height.height_max, np.eye(n, dtype=int), adj.copy())
    if hm2 != max(want + [0]):
        raise Violation(sub, "height-max", "height_max", "graph", "%s vs %s" % (hm2, max(want)))
    cl = gg.classes(n, mask)
    if n >= 2:
        # the same graph object, edited in place (one edge toggled), asked again: the answer is that of the graph as it is now
        nodes = list(g.nodes)
        a, b = case.get("toggle", [0, 1])
        a, b = a % n, b % n
        if a == b:
            b = (a + 1) % n
        k = rg.pairs(n).index((min(a, b), max(a, b)))
        mask2 = mask ^ (1 << k)
        if g.has_edge(nodes[a], nodes[b]):
            g.remove_edge(nodes[a], nodes[b])
        else:
            g.add_edge(nodes[a], nodes[b])
        want2 = rg.cut_ranks(n, mask2)
        hd2 = guarded(sub, "graph:edited_in_place", height.height_dict, graph=g)
        if [hd2[i] for i in range(n)] != want2:
            raise Violation(sub, "height-value", "height_dict", "graph:edited_in_place", "after toggling an edge of the same graph object: %s, cut ranks %s" % (hd2, want2))
        hm3 = guarded(sub, "graph:edited_in_place", height.height_max, graph=g)
        if hm3 != max(want2 + [0]):
            raise Violation(sub, "height-max", "height_max", "graph:edited_in_place", "%s vs %s" % (hm3, max(want2 + [0])))
        cl.append("asked_again_after_edit")
    return Info(nontrivial=(max(want + [0]) >= 2 or non_monotone(want)), classes=cl)


def check_state(case, sub="states"):
    import graphiq.backends.stabilizer.functions.height as height

    n = case["n"]
    dense = n <= 8
    S, D, v = gs.present(case, dense=dense)
    want = entropy_profile_gf2(S, n)
    if dense:
        want2 = [sv.schmidt_rank_log2(v, n, k) if k < n - 1 else 0 for k in range(n)]
        assert want == want2, (want, want2)
    cl = gs.classes(S, n)
    if non_monotone(want):
        cl.append("non_monotone")
    t, r = gs.xzr_arrays(S, n)
    x, z = t[:, :n].copy(), t[:, n:].copy()
    got = guarded(sub, "state", height.height_func_list, x, z)
    if not (np.array_equal(x, t[:, :n]) and np.array_equal(z, t[:, n:])):
        raise Violation(sub, "argument-mutated", "height_func_list", "state", "inputs changed")
    if list(got) != want:
        raise Violation(sub, "height-value", "height_func_list", "state",
                        "got %s, entropy profile %s" % (list(got), want))
    # gauge independence: another presentation of the same state
    S2, _, _ = gs.present(dict(case, rowops=case.get("alt", []), M=None), dense=False)
    t2, _ = gs.xzr_arrays(S2, n)
    got2 = guarded(sub, "state", height.height_func_list, t2[:, :n].copy(), t2[:, n:].copy())
    if list(got2) != list(got):
        raise Violation(sub, "gauge-dependent", "height_func_list", "state", "%s vs %s" % (list(got), list(got2)))
    if max(want + [0]) >= 2:
        cl.append("entropy>=2")
    return Info(nontrivial=("has_Y" in cl and "non_graph_form" in cl and ("non_monotone" in cl or "entropy>=2" in cl)),
                classes=cl)


def solver_for_graph(case, compiler="stab"):
    from graphiq.backends.density_matrix.compiler import DensityMatrixCompiler
    from graphiq.backends.stabilizer.compiler import StabilizerCompiler
    from graphiq.backends.stabilizer.functions.rep_conversion import get_clifford_tableau_from_graph
    from graphiq.metrics import Infidelity
    from graphiq.solvers.time_reversed_solver import TimeReversedSolver
    from graphiq.state import QuantumState

    g = gg.to_nx(case)
    target = QuantumState(get_clifford_tableau_from_graph(g), rep_type="s")
    comp = StabilizerCompiler() if compiler == "stab" else DensityMatrixCompiler()
    comp.measurement_determinism = 1
    return TimeReversedSolver(target=target, metric=Infidelity(target=target), compiler=comp)


def check_solver(case, sub="solver"):
    import graphiq.circuit.ops as ops

    n, mask = case["n"], case["mask"]
    icls = "has_isolated_vertex" if rg.has_isolated(n, mask) else "no_isolated_vertex"
    want = max(rg.cut_ranks(n, mask) + [0])
    solver = guarded(sub, icls, solver_for_graph, case)
    guarded(sub, icls, solver.solve)
    score, circ = solver.result
    if circ.n_emitters != want or solver.n_emitter != want:
        raise Violation(sub, "emitter-count", "TimeReversedSolver", icls,
                        "n_emitters=%s, max cut rank %s" % (circ.n_emitters, want))
    if circ.n_photons != n:
        raise Violation(sub, "photon-count", "TimeReversedSolver", icls, "%s != %s" % (circ.n_photons, n))
    targets = []
    for op in circ.sequence(unwrapped=True):
        if type(op) is ops.CNOT and op.control_type == "e" and op.target_type == "p":
            targets.append(op.target)
        if type(op) in (ops.CNOT, ops.CZ) and op.control_type == "p":
            raise Violation(sub, "photon-control", "TimeReversedSolver", icls, "photon controls a two-qubit gate")
    if sorted(targets) != list(range(n)):
        raise Violation(sub, "emission-once", "TimeReversedSolver", icls, "emission targets %s" % sorted(targets))
    cl = gg.classes(n, mask)
    if want >= 2:
        cl.append("emitters>=2")
    return Info(nontrivial=want >= 2, classes=cl)


def strat_states(tier):
    small = gs.st_state(1, 8, max_word=30, max_rowops=14)
    big = st.one_of(gs.st_state(9, 30, max_word=70, max_rowops=25), gs.st_state(9, 30, max_word=70, max_rowops=25),
                    gs.st_state(62, 70, max_word=140, max_rowops=25))  # beyond 64: integer packing / dtype limits
    sparse = gs.st_sparse_state(5, 9)
    base = st.one_of(small, small, sparse, big)
    return st.tuples(base, gs.st_rowops(29, 10)).map(lambda t: dict(t[0], alt=t[1]))


def enum_states(tier, seed):
    rng = __import__("random").Random(seed)
    cases = []
    for n in (1, 2):
        for w in gs.all_states(n):
            for M in gs.all_invertible(n):
                cases.append({"n": n, "word": w, "M": M, "alt": [["mul", 0, 1]]})
    ws, ms = gs.all_states(3), gs.all_invertible(3)
    exhaustive = tier == "thorough"
    for w in ws:
        for M in (ms if exhaustive else rng.sample(ms, 8)):
            cases.append({"n": 3, "word": w, "M": M, "alt": [["mul", 0, 2], ["swap", 1, 2]]})
    return cases, exhaustive


def enum_graphs(tier, seed):
    return gg.all_graphs(4 if tier == "quick" else 5), True


def enum_solver(tier, seed):
    return gg.all_graphs(4 if tier == "quick" else 5, no_isolated=True), True


SUBS = [
    Sub("graphs", check_graph, enum=enum_graphs, doc="every labelled graph n<=4/5"),
    Sub("graphs_random", lambda c: check_graph(c, "graphs"), strategy=lambda tier: gg.st_graph(5, 12, labels=True),
        n={"quick": 60, "thorough": 1500}),
    Sub("states", check_state, strategy=strat_states, n={"quick": 400, "thorough": 6000}),
    Sub("states_complete", lambda c: check_state(c, "states"), enum=enum_states),
    Sub("solver", check_solver, enum=enum_solver, doc="every labelled graph without isolated vertex n<=4/5"),
    Sub("solver_random", lambda c: check_solver(c, "solver"),
        strategy=lambda tier: gg.st_graph(5, 8 if tier == "quick" else 11, no_isolated=True, labels=True),
        n={"quick": 12, "thorough": 300}, shrink=False),
]
