"""C13 - circuit rewrites preserve the state; library calls do not mutate their inputs."""
import numpy as np
from hypothesis import strategies as st

from ..core import Info, Violation, guarded
from ..engine import Sub
from ..gen import circuits as gc
from ..gen import graphs as gg
from ..ref import graphs as rg
from ..ref import pauli as rp
from ..ref import statevec as sv
from . import c02

ID = "C13"
RULE = (
    "generic circuits (<=5 qubits, <=1 classical register so that measuring operations are totally ordered) and an "
    "interleaving of calls on shared objects: rewrites on a working copy (copy, unwrap_nodes, group_one_qubit_gates, "
    "remove_identity, assign_noise with an empty map) and non-rewrite calls on the original (compile with either backend, "
    "noise on/off; Infidelity / TraceDistance / CircuitDepth evaluation; compare; to_openqasm; assign_noise(map); "
    "MonteCarloNoise(...).assign_noise(); TimeReversedSolver / HybridEvolutionarySolver / EvolutionarySolver / AlternateTargetSolver runs on a target held as stabilizer, density matrix or graph). After every call the "
    "working copy must compile to the reference state of the original program and the original must be unchanged "
    "(openQASM text, per-register operation lists, compiled state with noise simulation off AND on), the target must denote "
    "the same state. Non-trivial = interleaving that re-uses an object after a noisy copy or a solver run was derived from "
    "it. Distinct = SHA-1."
)
ASSUMPTIONS = ["dense reference; forced measurement settings so that compile is a function",
               "compile(circuit, initial_state=s) aliasing s is outside the statement and not asserted"]
REQUIRED_CLASSES = {"interleave": ["rewrite:group", "rewrite:unwrap", "rewrite:rmid", "rewrite:copy", "rewrite:assign_empty",
                                   "call:assign_noise", "call:mc", "call:solve", "call:hybrid", "call:evo", "call:alt", "call:copy_grow", "working_copy_built_with_replace_op", "call:cost_metrics", "noisy_compile_twice:two_sided_noise", "call:compile", "call:metric", "reuse_after_noisy_copy", "rewrite:noisy_copy"]}


def compilers():
    from graphiq.backends.density_matrix.compiler import DensityMatrixCompiler
    from graphiq.backends.stabilizer.compiler import StabilizerCompiler

    return {"stab": StabilizerCompiler, "dm": DensityMatrixCompiler}


def ref_state(desc, det):
    ref = gc.RefRun(desc)
    for d in gc.expand(desc["ops"]):
        ref.step(d, det)
    return ref.v


def compile_state(sub, icls, circ, backend, det, noise):
    comp = compilers()[backend]()
    comp.measurement_determinism = det
    comp.noise_simulation = bool(noise)
    return guarded(sub, icls, comp.compile, circ)


def state_matches(state, backend, v, n):
    d = state.rep_data
    if backend == "dm":
        return np.linalg.norm(np.asarray(d.data) - sv.dm(v)) < 1e-8
    kind = type(d).__name__
    if kind == "MixedStabilizer":
        mix = d.mixture
        if len(mix) != 1 or abs(mix[0][0] - 1.0) > 1e-12:
            return False
        tab = mix[0][1]
    else:
        tab = d.tableau
    return n == 0 or rp.denotes(tab, v, n)


def wires_of(circ):
    """per-register operation lists read from the DAG"""
    out = {}
    for t, cnt in (("e", circ.n_emitters), ("p", circ.n_photons)):
        for r in range(cnt):
            ops_, _ = circ.reg_gate_history(r, t)
            out["%s%d" % (t, r)] = [x for x in (gc.name_of(o) for o in ops_) if x is not None]
    return out


def noise_from(spec):
    import graphiq.noise.noise_models as nm

    kind, val, after = spec
    if kind == "depol":
        n = nm.DepolarizingNoise(val)
    elif kind == "pauli":
        n = nm.PauliError("XYZ"[int(val * 3) % 3])
    elif kind == "loss":
        n = nm.PhotonLoss(val)
    else:
        return nm.NoNoise()
    n.noise_parameters["After gate"] = bool(after)
    return n


GNAMES = {"I": "Identity", "H": "Hadamard", "P": "Phase", "Pdag": "PhaseDagger", "X": "SigmaX", "Y": "SigmaY", "Z": "SigmaZ",
          "CNOT": "CNOT", "CZ": "CZ", "CCNOT": "ClassicalCNOT", "CCZ": "ClassicalCZ", "MCR": "MeasurementCNOTandReset",
          "MZ": "MeasurementZ"}


def build_map(mapspec):
    m = {"e": {}, "p": {}, "ee": {}, "ep": {}, "pe": {}, "pp": {}}
    for key, gate, spec in mapspec:
        if gate in GNAMES:
            m[key][GNAMES[gate]] = noise_from(spec)
            if len(key) == 2 and gate == "CZ":
                # control and target noise on opposite sides of the gate
                m[key][GNAMES[gate]] = [noise_from(spec), noise_from([spec[0], spec[1], not spec[2]])]
    return m


def noise_signature(circ):
    """what noise every operation carries (class name + parameters), in sequence order"""
    def one(x):
        return (type(x).__name__, sorted((k, repr(v)) for k, v in (getattr(x, "noise_parameters", None) or {}).items()))
    out = []
    for o in circ.sequence():
        d = gc.name_of(o)
        if d is None:
            continue
        nz = o.noise
        out.append((repr(d), [one(x) for x in nz] if isinstance(nz, list) else one(nz)))
    return out


def state_signature(state):
    d = state.rep_data
    kind = type(d).__name__
    if kind == "DensityMatrix":
        return ("dm", np.round(np.asarray(d.data), 10).tolist())
    if kind == "MixedStabilizer":
        return ("mix", [(round(float(p_), 12), np.asarray(t.table).tolist(), np.asarray(t.phase).tolist()) for p_, t in d.mixture])
    return ("stab", np.asarray(d.tableau.table).tolist(), np.asarray(d.tableau.phase).tolist())


def check(case, sub="interleave"):
    import graphiq.noise.monte_carlo_noise as mcn
    import graphiq.noise.noise_models as nm
    from graphiq.metrics import CircuitDepth, Infidelity, TraceDistance
    from graphiq.state import QuantumState

    desc = case["circ"]
    n = desc["ne"] + desc["np"]
    icls = "measuring" if any(gc.measuring(d) for d in desc["ops"]) else "unitary"
    refs = {0: ref_state(desc, 0), 1: ref_state(desc, 1)}
    C = gc.build(desc)
    if case.get("placeholders"):
        # the working circuit is built with Identity placeholders for some one-qubit gates, which are then put in place with
        # replace_op: it is the same program, and every later rewrite (e.g. remove_identity) must treat it as such
        idx = [i for i, d in enumerate(desc["ops"]) if d[0] in ("H", "P", "X", "Y", "Z", "Pdag") and (i + case.get("seed", 0)) % 2 == 0]
        ops_ph = [([("I", d[1], d[2])] if i in idx else [d])[0] for i, d in enumerate(desc["ops"])]
        ops_ph = [list(x) for x in ops_ph]
        W, objs_w = gc.build(dict(desc, ops=ops_ph), return_ops=True)
        for i in idx:
            nid = [x for x in W.dag.nodes if W.dag.nodes[x].get("op") is objs_w[i]]
            guarded(sub, icls, W.replace_op, nid[0], gc.make_op(desc["ops"][i]))
        if idx:
            pass
    else:
        W = guarded(sub, icls, C.copy)
    qasm0 = guarded(sub, icls, C.to_openqasm)
    wires0 = wires_of(C)
    cl = set(gc.classes_of(desc))
    if case.get("placeholders"):
        cl.add("working_copy_built_with_replace_op")
    # target for solver / metric calls
    tg = case.get("target") or {"n": 3, "mask": 3}
    tv = rg.graph_state(tg["n"], tg["mask"])
    target = c02.make_target(dict(tg, rep=case.get("target_rep", "s")))
    derived = False
    nontrivial = False

    def invariants(step, kind):
        # working copy: same state as the original program
        for det in (0, 1):
            s = compile_state(sub, icls, W, "stab", det, False)
            if s.n_qubits != n or not state_matches(s, "stab", refs[det], n):
                raise Violation(sub, "rewrite-changed-state", kind, icls, "after %s the working copy compiles to another state (setting %s)" % (step, det))
        # original unchanged
        q = guarded(sub, icls, C.to_openqasm)
        if q != qasm0:
            raise Violation(sub, "original-changed", kind, icls, "openQASM text of the original changed after %s" % (step,))
        if wires_of(C) != wires0:
            raise Violation(sub, "original-changed", kind, icls, "operation lists of the original changed after %s" % (step,))
        for noise in (False, True):
            for det in (0, 1):
                s = compile_state(sub, icls + (":noise_on" if noise else ""), C, "stab", det, noise)
                if not state_matches(s, "stab", refs[det], n):
                    raise Violation(sub, "original-changed", kind, icls,
                                    "after %s the original compiles to another state (noise simulation %s, setting %s)" % (
                                        step, "on" if noise else "off", det))
        # target still denotes the same state
        if target.n_qubits != tg["n"]:
            raise Violation(sub, "target-changed", kind, icls, "target n_qubits changed")
        rep = target.rep_type
        ok = True
        if rep == "s":
            ok = rp.denotes(target.rep_data.tableau, tv, tg["n"])
        elif rep == "dm":
            ok = np.linalg.norm(np.asarray(target.rep_data.data) - sv.dm(tv)) < 1e-8
        elif rep == "g":
            import networkx as nx

            ok = np.array_equal((nx.to_numpy_array(target.rep_data.data) != 0).astype(int), rg.adj_from_mask(tg["n"], tg["mask"]))
        if not ok:
            raise Violation(sub, "target-changed", kind, icls, "after %s the target denotes another state" % (step,))

    invariants("construction", "copy")
    for step in case["actions"]:
        a = step[0]
        kind = a
        if a == "W:copy":
            W = guarded(sub, icls, W.copy)
            cl.add("rewrite:copy")
        elif a == "W:unwrap":
            guarded(sub, icls, W.unwrap_nodes)
            cl.add("rewrite:unwrap")
        elif a == "W:group":
            guarded(sub, icls, W.group_one_qubit_gates)
            cl.add("rewrite:group")
        elif a == "W:rmid":
            guarded(sub, icls, W.remove_identity)
            cl.add("rewrite:rmid")
        elif a == "W:assign_empty":
            W = guarded(sub, icls, W.assign_noise, {"e": {}, "p": {}, "ee": {}, "ep": {}, "pe": {}, "pp": {}})
            cl.add("rewrite:assign_empty")
        elif a == "C:compile":
            backend, det, noise = step[1], step[2], step[3]
            if backend == "dm" and n > 5:
                backend = "stab"
            s1 = compile_state(sub, icls, C, backend, det, noise)
            s2 = compile_state(sub, icls, C, backend, det, noise)
            if not state_matches(s1, backend, refs[det], n) or not state_matches(s2, backend, refs[det], n):
                raise Violation(sub, "compile-not-repeatable", "compile", icls, "two deterministic compiles of the original differ from the reference")
            cl.add("call:compile")
        elif a == "C:metric":
            s = compile_state(sub, icls, C, "stab", 1, False)
            which = step[1]
            if which == "depth":
                guarded(sub, icls, CircuitDepth().evaluate, s, C)
            elif which == "cost":
                # every circuit-cost metric class, evaluated on the original (the invariants then check that it is unchanged)
                import graphiq.metrics as gm

                for name in ("CircuitDepth", "CircuitEmitterCount", "CircuitCnotCount", "CircuitUnitaryCount", "CircuitMeasureCount",
                             "CircuitMaxEmitDepth", "CircuitMaxEmitResetDepth", "CircuitMaxEmitEffDepth"):
                    if name.startswith("CircuitMaxEmit") and C.n_emitters == 0:
                        continue
                    metric = guarded(sub, icls, getattr(gm, name))
                    guarded(sub, icls, metric.evaluate, s, C)
                    guarded(sub, icls, metric.evaluate, s, C)
                cl.add("call:cost_metrics")
            elif n == tg["n"] and target.rep_type in ("s", "dm"):
                m = Infidelity(target) if which == "inf" else None
                if m is not None:
                    guarded(sub, icls, m.evaluate, s, C)
            cl.add("call:metric")
        elif a == "C:compare":
            r = guarded(sub, icls, C.compare, W, method=step[1])
            cl.add("call:compare")
        elif a == "C:qasm":
            guarded(sub, icls, C.to_openqasm)
        elif a == "C:assign_noise":
            m = build_map(step[1])
            N = guarded(sub, icls, C.assign_noise, m)
            if N is C:
                raise Violation(sub, "not-a-copy", "assign_noise", icls, "assign_noise returned the circuit itself")
            derived = True
            cl.add("call:assign_noise")
            # compiling the noisy copy with noise simulation on leaves it as it was: same noise on every operation,
            # and a second compile returns the same state
            sig0 = noise_signature(N)
            two_sided = any(isinstance(x[1], list) and len(x[1]) == 2 and x[1][0] != x[1][1] for x in sig0)
            def noisy_measuring(o):
                d_ = gc.name_of(o)
                nz_ = o.noise if isinstance(o.noise, list) else [o.noise]
                return d_ is not None and gc.measuring(d_) and any(type(x).__name__ != "NoNoise" for x in nz_)

            # (the compilers reject noise models on measuring operations with a ValueError: such copies are not compiled)
            backends = () if any(noisy_measuring(o) for o in N.sequence()) else (("stab", "dm") if n <= 4 else ("stab",))
            for backend in backends:
                s1 = compile_state(sub, icls + ":noise_on", N, backend, 1, True)
                if noise_signature(N) != sig0:
                    raise Violation(sub, "original-changed", "compile:noisy", icls, "compiling a noisy circuit (%s) changed the noise its operations carry" % backend)
                s2 = compile_state(sub, icls + ":noise_on", N, backend, 1, True)
                if state_signature(s1) != state_signature(s2):
                    raise Violation(sub, "original-changed", "compile:noisy", icls, "two compiles of the same noisy circuit (%s) give different states" % backend)
            if backends:
                cl.add("noisy_compile_twice")
            if two_sided and backends:
                cl.add("noisy_compile_twice:two_sided_noise")
        elif a == "N:rewrite":
            # a noisy copy, rewritten, must still compile to the noiseless state when noise simulation is off
            m = build_map(step[1])
            N = guarded(sub, icls, C.assign_noise, m)
            for rw in step[2]:
                if rw == "group":
                    guarded(sub, icls, N.group_one_qubit_gates)
                elif rw == "unwrap":
                    guarded(sub, icls, N.unwrap_nodes)
                elif rw == "rmid":
                    guarded(sub, icls, N.remove_identity)
                elif rw == "copy":
                    N = guarded(sub, icls, N.copy)
                for det in (0, 1):
                    s_ = compile_state(sub, icls, N, "stab", det, False)
                    if not state_matches(s_, "stab", refs[det], n):
                        raise Violation(sub, "rewrite-changed-state", "N:" + rw, icls,
                                        "noisy copy after %s compiles (noise simulation off) to another state (setting %s)" % (rw, det))
            derived = True
            cl.add("rewrite:noisy_copy")
        elif a == "C:mc":
            # the Monte-Carlo noise map knows the register classes e, p, ee, ep only (the photonic setting)
            if any(len(gc.qregs(d)) == 2 and (d[1] + d[3]) not in ("ee", "ep") for d in desc["ops"]):
                continue
            mp = mcn.McNoiseMap()
            for key, gate, spec in step[1]:
                if gate in GNAMES and key in ("e", "p", "ee", "ep"):
                    mp.add_gate_noise(key, GNAMES[gate], [(noise_from(spec), 0.9)])
            mc = guarded(sub, icls, mcn.MonteCarloNoise, C, 1, mp, None, case.get("seed", 0))
            mc.n_noisy_gates = 0  # what one_run() does before calling assign_noise
            guarded(sub, icls, mc.assign_noise)
            derived = True
            cl.add("call:mc")
        elif a == "C:copy_grow":
            # copies are independent objects: growing a copy (operation on a new register) must not change its source, and
            # growing the source must not change a copy taken before
            t = step[1]
            src = C if step[2] == 0 else W
            import graphiq.circuit.ops as ops

            def grow(circ_):
                r = circ_.n_emitters if t == "e" else circ_.n_photons
                guarded(sub, icls, circ_.add, ops.Hadamard(register=r, reg_type=t))

            counts = (src.n_emitters, src.n_photons, src.n_classical)
            wires_src = wires_of(src)
            X = guarded(sub, icls, src.copy)
            grow(X)
            if (src.n_emitters, src.n_photons, src.n_classical) != counts or wires_of(src) != wires_src:
                raise Violation(sub, "copy-aliased", "copy", icls, "adding an operation on a new register to a copy changed the circuit it was copied from")
            Y = guarded(sub, icls, src.copy)
            Z = guarded(sub, icls, Y.copy)
            grow(Y)
            if (Z.n_emitters, Z.n_photons, Z.n_classical) != counts or wires_of(Z) != wires_src:
                raise Violation(sub, "copy-aliased", "copy", icls, "adding an operation on a new register to a circuit changed a copy taken before")
            for det in (0, 1):
                sz = compile_state(sub, icls, Z, "stab", det, False)
                if sz.n_qubits != n or not state_matches(sz, "stab", refs[det], n):
                    raise Violation(sub, "copy-aliased", "copy", icls, "a copy taken before its source was grown compiles to another state")
            cl.add("call:copy_grow")
        elif a == "T:solve":
            from graphiq.backends.stabilizer.compiler import StabilizerCompiler
            from graphiq.solvers.time_reversed_solver import TimeReversedSolver

            comp = StabilizerCompiler()
            comp.measurement_determinism = 1
            solver = guarded(sub, icls, TimeReversedSolver, target=target, metric=Infidelity(target=target), compiler=comp)
            guarded(sub, icls, solver.solve)
            derived = True
            cl.add("call:solve")
        elif a == "T:hybrid":
            from graphiq.backends.stabilizer.compiler import StabilizerCompiler
            from graphiq.solvers.hybrid_solvers import HybridEvolutionarySolver

            comp = StabilizerCompiler()
            comp.measurement_determinism = 1
            if target.rep_type == "s":
                from graphiq.solvers.evolutionary_solver import EvolutionarySolverSetting
                import warnings

                hs = guarded(sub, icls, HybridEvolutionarySolver, target=target, metric=Infidelity(target=target), compiler=comp,
                             solver_setting=EvolutionarySolverSetting(n_hof=2, n_stop=2, n_pop=2))
                hs.seed(case.get("seed", 0))
                with warnings.catch_warnings():
                    warnings.simplefilter("ignore")
                    guarded(sub, icls, hs.solve)
                derived = True
            cl.add("call:hybrid")
        elif a == "T:evo":
            from graphiq.backends.density_matrix.compiler import DensityMatrixCompiler
            from graphiq.backends.stabilizer.compiler import StabilizerCompiler
            from graphiq.solvers.evolutionary_solver import EvolutionarySolver, EvolutionarySolverSetting
            import warnings

            if target.rep_type in ("s", "dm"):
                comp = StabilizerCompiler() if target.rep_type == "s" else DensityMatrixCompiler()
                comp.measurement_determinism = 1
                es = guarded(sub, icls, EvolutionarySolver, target=target, metric=Infidelity(target=target), compiler=comp, n_emitter=1,
                             n_photon=tg["n"], solver_setting=EvolutionarySolverSetting(n_hof=2, n_stop=3, n_pop=3))
                es.seed(case.get("seed", 0))
                with warnings.catch_warnings():
                    warnings.simplefilter("ignore")
                    guarded(sub, icls, es.solve)
                derived = True
                cl.add("call:evo")
        elif a == "T:alt":
            from graphiq.solvers.alternate_target_solver import AlternateTargetSolver, AlternateTargetSolverSetting
            import warnings

            if tg["n"] >= 3:
                np.random.seed(case.get("seed", 0))
                setting = AlternateTargetSolverSetting(n_iso_graphs=step[1], n_lc_graphs=step[2])
                alt = guarded(sub, icls, AlternateTargetSolver, target=target, solver_setting=setting, seed=case.get("seed", 0))
                with warnings.catch_warnings():
                    warnings.simplefilter("ignore")
                    guarded(sub, icls, alt.solve)
                derived = True
                cl.add("call:alt")
        else:
            raise ValueError(a)
        invariants(step, kind)
        if derived:
            cl.add("reuse_after_noisy_copy")
            nontrivial = True
    # density-matrix backend once at the end (more expensive)
    if n <= 4:
        for det in (0, 1):
            for circ_, name in ((C, "original"), (W, "working copy")):
                s = compile_state(sub, icls, circ_, "dm", det, False)
                if not state_matches(s, "dm", refs[det], n):
                    raise Violation(sub, "original-changed" if circ_ is C else "rewrite-changed-state", "dm-final", icls,
                                    "density-matrix compile of the %s differs from the reference" % name)
    return Info(nontrivial=nontrivial, classes=sorted(cl))


SPEC = st.tuples(st.sampled_from(["depol", "pauli", "loss"]), st.sampled_from([0.0, 0.1, 0.5, 1.0]), st.booleans()).map(list)
MAPSPEC = st.lists(st.tuples(st.sampled_from(["e", "p", "ee", "ep", "pe", "pp"]),
                             st.sampled_from(["H", "P", "X", "Z", "I", "CNOT", "CZ", "MCR", "CCNOT"]), SPEC).map(list),
                   min_size=1, max_size=5)


def strat(tier):
    acts = st.one_of(
        st.sampled_from([["W:copy"], ["W:unwrap"], ["W:group"], ["W:rmid"], ["W:assign_empty"], ["W:group"], ["W:unwrap"]]),
        st.tuples(st.just("C:compile"), st.sampled_from(["stab", "dm"]), st.sampled_from([0, 1]), st.booleans()).map(list),
        st.tuples(st.just("C:metric"), st.sampled_from(["inf", "depth", "cost", "cost"])).map(list),
        st.tuples(st.just("C:compare"), st.sampled_from(["direct", "is_isomorphic"])).map(list),
        st.just(["C:qasm"]),
        st.tuples(st.just("C:assign_noise"), MAPSPEC).map(list),
        st.tuples(st.just("C:assign_noise"), MAPSPEC).map(list),
        st.tuples(st.just("C:mc"), MAPSPEC).map(list),
        st.tuples(st.just("N:rewrite"), MAPSPEC, st.lists(st.sampled_from(["group", "unwrap", "rmid", "copy", "group"]), min_size=1, max_size=3)).map(list),
        st.tuples(st.just("N:rewrite"), MAPSPEC, st.lists(st.sampled_from(["group", "unwrap", "rmid", "copy", "group"]), min_size=1, max_size=3)).map(list),
        st.tuples(st.just("C:copy_grow"), st.sampled_from("ep"), st.integers(0, 1)).map(list),
        st.just(["T:solve"]), st.just(["T:hybrid"]), st.just(["T:evo"]),
        st.tuples(st.just("T:alt"), st.integers(1, 2), st.integers(1, 2)).map(list),
    )
    return st.fixed_dictionaries({
        "circ": gc.st_circuit(max_q=4 if tier == "quick" else 5, max_len=20, max_c=1),
        "actions": st.lists(acts, min_size=1, max_size=6 if tier == "quick" else 10),
        "target": gg.st_graph(2, 4, connected=True),
        "target_rep": st.sampled_from(["s", "dm", "g"]),
        "seed": st.integers(0, 10**6),
        "placeholders": st.sampled_from([False, False, True]),
    })


SUBS = [
    Sub("interleave", check, strategy=strat, n={"quick": 150, "thorough": 1500}, timeout={"quick": 120, "thorough": 300}),
]
