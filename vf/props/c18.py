"""C18 - circuit cost metrics equal the quantities they are defined as."""
import numpy as np
from hypothesis import strategies as st

from ..core import Info, Violation, guarded
from ..engine import Sub
from ..gen import circuits as gc

ID = "C18"
RULE = (
    "photonic-profile circuits (every photon is first emitted by an emitter->photon CNOT, then sees only one-qubit gates, "
    "wrappers and measure-and-reset corrections; emitter-emitter CNOTs; several resets per emitter; idle emitters; wrappers "
    "containing identities) and generic circuits for the metrics whose definition is unambiguous there; every metric class "
    "constructed with default arguments and with the explicit penalty x -> 2x+1. Quantities are computed from the case's "
    "operation list, never from the DAG. Non-trivial = >=2 emitters, >=1 emitter-emitter CNOT, >=2 resets on one emitter "
    "and a wrapper containing an identity. Distinct = SHA-1."
)
ASSUMPTIONS = ["depth = number of operations on the longest chain through quantum and classical wires; unitary count = non-identity "
               "operations among H,P,Pdag,X,Y,Z,CNOT after expanding wrappers (circuits with CZ are kept out of that sub-check: whether "
               "CZ counts is not stated); measurement count = number of measure-and-reset operations"]
REQUIRED_CLASSES = {"photonic": ["emitters>=2", "ee_cnot", "two_resets_one_emitter", "wrapper_with_identity", "idle_emitter", "no_mcr", "register_added_explicitly"]}


def depths(desc, expanded=False, drop_identity=False):
    """DP over the program order (a topological order): number of operations on the longest chain ending at each op"""
    ops_ = gc.expand(desc["ops"]) if expanded else list(desc["ops"])
    if drop_identity:
        ops_ = [d for d in ops_ if d[0] != "I"]
    last = {}
    out = []
    for d in ops_:
        keys = [("q",) + q for q in gc.qregs(d)]
        if not (expanded and d[0] in gc.ONE):  # sub-gates of a wrapper never sit on classical wires; plain gates have none
            keys += [("c", c) for c in gc.cregs(d)]
        else:
            keys += [("c", c) for c in gc.cregs(d)]
        v = 1 + max([last.get(k, 0) for k in keys] + [0])
        for k in keys:
            last[k] = v
        out.append(v)
    return ops_, out, last


def quantities(desc):
    ops_, dp, last = depths(desc)
    q = {}
    q["depth"] = max(dp + [0])
    q["reg_depth"] = {t: [last.get(("q", t, r), 0) for r in range(desc["n" + t])] for t in "ep"}
    q["reg_depth"]["c"] = [last.get(("c", r), 0) for r in range(desc["nc"])]
    q["emitters"] = desc["ne"]
    q["ee_cnot"] = sum(1 for d in ops_ if d[0] == "CNOT" and d[1] == "e" and d[3] == "e")
    ex = [d for d in gc.expand(desc["ops"]) if d[0] != "I"]
    q["unitary"] = sum(1 for d in ex if d[0] in ("H", "P", "Pdag", "X", "Y", "Z", "CNOT"))
    q["mcr"] = sum(1 for d in ops_ if d[0] == "MCR")
    # emitter wires of the expanded, identity-free circuit
    ops2, dp2, last2 = depths(desc, expanded=True, drop_identity=True)
    wire = {r: [] for r in range(desc["ne"])}
    for i, d in enumerate(ops2):
        for t, r in gc.qregs(d):
            if t == "e":
                wire[r].append(i)
    if desc["ne"]:
        q["max_emit_depth"] = max(len(w) for w in wire.values())
        resets, eff = [], []
        for r, w in wire.items():
            marks = [0] + [k + 1 for k, i in enumerate(w) if ops2[i][0] == "MCR"] + [len(w) + 1]
            resets.append(max(b - a for a, b in zip(marks, marks[1:])))
            # _max_depth: Input -1; op node = (ops on longest chain ending there) - 1; Output = chain length of the last op (0 if idle)
            md = [-1] + [dp2[i] - 1 for i in w if ops2[i][0] == "MCR"] + [dp2[w[-1]] if w else 0]
            eff.append(max(b - a for a, b in zip(md, md[1:])))
        q["reset_depth"] = max(resets)
        q["eff_depth"] = max(eff)
    return q


def check(case, sub="photonic"):
    import graphiq.metrics as gm

    desc = case["circ"]
    circ = gc.build(desc)
    extra = case.get("extra_reg")
    if extra:
        # a register added explicitly after construction (idle): it counts like any other register
        guarded(sub, "add_register", {"e": circ.add_emitter_register, "p": circ.add_photonic_register, "c": circ.add_classical_register}[extra])
        desc = dict(desc, **{"n" + extra: desc["n" + extra] + 1})
    q = quantities(desc)
    cl = classes(desc)
    if extra:
        cl.append("register_added_explicitly")
    before = [gc.name_of(o) for o in circ.sequence()]
    pen = (lambda x: 2 * x + 1)
    pen_dec = (lambda x: 1000 - 3 * x)  # not monotone increasing: penalty(max) is not max(penalty)
    has_cz = any(d[0] == "CZ" for d in desc["ops"])
    generic = case.get("generic", False)
    table = [
        ("CircuitDepth", "depth_penalty", q["depth"], True),
        ("CircuitEmitterCount", "n_emitter_penalty", q["emitters"], True),
        ("CircuitCnotCount", "n_cnot_penalty", q["ee_cnot"], True),
        ("CircuitUnitaryCount", "n_unitary_penalty", q["unitary"], not has_cz),
        ("CircuitMeasureCount", "m_penalty", q["mcr"], not generic or not any(d[0] in ("MZ", "CCNOT", "CCZ") for d in desc["ops"])),
    ]
    if desc["ne"]:
        table += [
            ("CircuitMaxEmitDepth", "depth_penalty", q["max_emit_depth"], True),
            ("CircuitMaxEmitResetDepth", "depth_penalty", q["reset_depth"], not generic),
            ("CircuitMaxEmitEffDepth", "depth_penalty", q["eff_depth"], not generic),
        ]
    metrics = {}
    # decoy: the first half of the operations on a circuit with MORE registers (an idle emitter and two idle photons)
    half = dict(desc, ne=desc["ne"] + 1, np=desc["np"] + 2,
                ops=desc["ops"][: len(desc["ops"]) // 2] + [["H", "e", desc["ne"]], ["P", "e", desc["ne"]]] * 15)  # a busy extra emitter
    decoy = gc.build(half)

    def evaluate_all(phase):
        for cname, kw, want, applies in table:
            if not applies:
                continue
            for mode in ("default", "explicit", "explicit_decreasing"):
                icls = mode if phase == 0 else mode + ":re-evaluated"
                cls = getattr(gm, cname)
                if (cname, mode) not in metrics:
                    metrics[(cname, mode)] = guarded(sub, icls, cls) if mode == "default" else guarded(
                        sub, icls, cls, **{kw: (pen if mode == "explicit" else pen_dec)})
                    # a metric object that has already seen another circuit (the first half of this one) must not remember it
                    if decoy is not None and not (cname.startswith("CircuitMaxEmit") and decoy.n_emitters == 0):
                        guarded(sub, icls + ":decoy", metrics[(cname, mode)].evaluate, None, decoy)
                        metrics[(cname, mode)].log.clear() if hasattr(metrics[(cname, mode)].log, "clear") else None
                metric = metrics[(cname, mode)]
                val = guarded(sub, icls, metric.evaluate, None, circ)
                expect = want if mode == "default" else (pen(want) if mode == "explicit" else pen_dec(want))
                if val != expect:
                    raise Violation(sub, "metric-value", cname, icls, "%s(%s) = %r, quantity computed from the operation list = %r" % (cname, mode, val, expect))
                if list(metric.log) != [expect] * (phase + 1):
                    raise Violation(sub, "metric-log", cname, icls, "log %r after %d evaluation(s)" % (metric.log, phase + 1))
                if phase == 0:
                    cl.append("%s:%s" % (cname, mode))

    def attributes():
        if guarded(sub, "attr", lambda: circ.depth) != q["depth"]:
            raise Violation(sub, "metric-value", "circuit.depth", "attr", "%r vs %r" % (circ.depth, q["depth"]))
        rd = guarded(sub, "attr", lambda: circ.register_depth)
        for t in "epc":
            if list(rd[t]) != q["reg_depth"][t]:
                raise Violation(sub, "metric-value", "circuit.register_depth", "attr", "%s: %r vs %r" % (t, list(rd[t]), q["reg_depth"][t]))

    # the order of queries must not matter: metrics on the fresh circuit, then the circuit's own depth attributes,
    # then every metric once more (same metric objects, same circuit), then the attributes again
    evaluate_all(0)
    attributes()
    evaluate_all(1)
    attributes()
    # log_steps
    m3 = gm.CircuitDepth(log_steps=3)
    for _ in range(7):
        m3.evaluate(None, circ)
    if list(m3.log) != [q["depth"], q["depth"]]:
        raise Violation(sub, "metric-log", "CircuitDepth", "log_steps", "log_steps=3, 7 evaluations: log %r" % (m3.log,))
    if [gc.name_of(o) for o in circ.sequence()] != before:
        raise Violation(sub, "circuit-mutated", "evaluate", "plain", "a metric evaluation changed the circuit")
    nontrivial = all(k in cl for k in ("emitters>=2", "ee_cnot", "two_resets_one_emitter", "wrapper_with_identity"))
    return Info(nontrivial=nontrivial, classes=cl)


def classes(desc):
    cl = []
    ops_ = desc["ops"]
    if desc["ne"] >= 2:
        cl.append("emitters>=2")
    if any(d[0] == "CNOT" and d[1] == "e" and d[3] == "e" for d in ops_):
        cl.append("ee_cnot")
    cnt = {}
    for d in ops_:
        if d[0] == "MCR":
            cnt[d[2]] = cnt.get(d[2], 0) + 1
    if any(v >= 2 for v in cnt.values()):
        cl.append("two_resets_one_emitter")
    if not cnt:
        cl.append("no_mcr")
    if any(d[0] == "W" and "I" in d[3] for d in ops_):
        cl.append("wrapper_with_identity")
    used = {r for d in ops_ for t, r in gc.qregs(d) if t == "e"}
    if len(used) < desc["ne"]:
        cl.append("idle_emitter")
    return cl


@st.composite
def st_photonic(draw):
    ne = draw(st.integers(1, 3))
    np_ = draw(st.integers(1, 5))
    nc = draw(st.integers(1, 2))
    ops_ = []
    emitted = []
    one = st.sampled_from(gc.ONE)
    steps = draw(st.lists(st.sampled_from(["emit", "emit", "e1", "p1", "ew", "pw", "ee", "mcr", "mcr"]), min_size=0, max_size=25))
    next_p = 0
    for s in steps:
        if s == "emit" and next_p < np_:
            ops_.append(["CNOT", "e", draw(st.integers(0, ne - 1)), "p", next_p])
            emitted.append(next_p)
            next_p += 1
        elif s == "e1":
            ops_.append([draw(one), "e", draw(st.integers(0, ne - 1))])
        elif s == "p1" and emitted:
            ops_.append([draw(one), "p", draw(st.sampled_from(emitted))])
        elif s == "ew":
            ops_.append(["W", "e", draw(st.integers(0, ne - 1)), draw(st.lists(one, min_size=1, max_size=4))])
        elif s == "pw" and emitted:
            ops_.append(["W", "p", draw(st.sampled_from(emitted)), draw(st.lists(one, min_size=1, max_size=4))])
        elif s == "ee" and ne >= 2:
            a = draw(st.integers(0, ne - 1))
            b = draw(st.integers(0, ne - 2))
            if b >= a:
                b += 1
            ops_.append(["CNOT", "e", a, "e", b])
        elif s == "mcr" and emitted:
            ops_.append(["MCR", "e", draw(st.integers(0, ne - 1)), "p", draw(st.sampled_from(emitted)), draw(st.integers(0, nc - 1))])
    np_used = max(next_p, 1)
    return {"circ": {"ne": ne, "np": np_used, "nc": nc, "ops": ops_}}


def strat_generic(tier):
    return st.tuples(gc.st_circuit(max_q=5, max_len=25, max_c=2), st.sampled_from([None, None, "e", "p", "c"])).map(
        lambda t: {"circ": t[0], "generic": True, "extra_reg": t[1]})


SUBS = [
    Sub("photonic", check, strategy=lambda tier: st.tuples(st_photonic(), st.sampled_from([None, None, "e", "p", "c"])).map(
        lambda t: dict(t[0], extra_reg=t[1])), n={"quick": 120, "thorough": 2500}),
    Sub("generic", lambda c: check(c, "generic"), strategy=strat_generic, n={"quick": 60, "thorough": 1000},
        doc="generic circuits: depth, per-register depth, emitter count, e-e CNOT count, unitary count (CZ-free), max emitter depth"),
]
