"""C09 - local-Clifford equivalence of graph states is decided correctly and constructively."""
import numpy as np
from hypothesis import strategies as st

from ..core import Info, Violation, guarded
from ..engine import Sub
from ..gen import graphs as gg
from ..gen import stab as gs
from ..ref import graphs as rg
from ..ref import pauli as rp
from ..ref import statevec as sv

ID = "C09"
RULE = (
    "ordered pairs of labelled graphs on the same vertices, ground truth = brute-force local-complementation orbit table "
    "(all labelled graphs n<=6): ALL ordered pairs n<=4 in quick (all n=5 pairs in thorough), plus for sampled n=5,6 graphs "
    "members of the orbit and near non-members (same edge count where possible); inputs as adjacency arrays, networkx "
    "graphs, Graph objects, Stabilizer/Clifford tableaux (also in non-graph-form generating sets); both solution modes. "
    "Non-trivial = two different graphs in one orbit, or in different orbits with equal edge counts. Distinct = SHA-1."
)
ASSUMPTIONS = ["orbit table computed by BFS over local complementations in vf/ref/graphs.py (orbit counts re-checked in the self-test)",
               "random mode may answer 'no' on an equivalent pair (documented heuristic); only a wrong 'yes' is a violation there"]
REQUIRED_CLASSES = {"pairs": ["equivalent_different", "inequivalent_same_edges", "disconnected", "self_pair", "solspace>=5"],
                    "unions": ["equivalent_different", "disconnected", "interleaved_block_with_vertex>=8"]}

GATE = {"I": "I", "H": "H", "P": "P", "P_dag": "Pdag", "X": "X", "Y": "Y", "Z": "Z"}


def apply_gates(v, n, gates):
    for g in gates:
        v = sv.apply1(v, n, int(g[1]), sv.GATES[GATE[g[0]]])
    return v


def pair_classes(n, m1, m2, truth):
    cl = []
    if m1 == m2:
        cl.append("self_pair")
    if truth and m1 != m2:
        cl.append("equivalent_different")
    if (not truth) and bin(m1).count("1") == bin(m2).count("1"):
        cl.append("inequivalent_same_edges")
    if not rg.connected(n, m1) or not rg.connected(n, m2):
        cl.append("disconnected")
    return cl


def check_pair(case, sub="pairs"):
    import networkx as nx

    import graphiq.backends.lc_equivalence_check as lc
    from graphiq.backends.graph.state import Graph
    from graphiq.backends.stabilizer.functions.local_cliff_equi_check import (
        converter_gate_list, lc_check, state_converter_circuit)

    n, m1, m2 = case["n"], case["m1"], case["m2"]
    if case.get("blocks"):
        # no edge leaves a block in either graph, and local complementation never adds one: the pair is LC-equivalent
        # exactly when the two induced graphs on every block are (each block has <= 5 vertices: orbit table)
        truth = True
        for block in case["blocks"]:
            idx = {v: k for k, v in enumerate(block)}
            sub_masks = []
            for m in (m1, m2):
                mm = 0
                for k, (i, j) in enumerate(rg.pairs(n)):
                    if (m >> k) & 1:
                        if (i in idx) != (j in idx):
                            raise ValueError("edge leaves its block")
                        if i in idx:
                            a, b = sorted((idx[i], idx[j]))
                            mm |= 1 << rg.pairs(len(block)).index((a, b))
                sub_masks.append(mm)
            truth = truth and rg.lc_equivalent(len(block), sub_masks[0], sub_masks[1])
        sub = "unions" if sub == "pairs" else sub
    else:
        truth = rg.lc_equivalent(n, m1, m2)
    cl = pair_classes(n, m1, m2, truth)
    if case.get("blocks"):
        cl.append("blocks:%d" % len(case["blocks"]))
        if any(len(b) >= 3 and max(b) >= 8 and sorted(b) != list(range(min(b), min(b) + len(b))) for b in case["blocks"]):
            cl.append("interleaved_block_with_vertex>=8")
    disc = "disconnected" in cl
    icls = ("disconnected" if disc else "connected") + (":equivalent" if truth else ":inequivalent")
    a1, a2 = rg.adj_from_mask(n, m1), rg.adj_from_mask(n, m2)
    # size of the solution space (class tracking only)
    dims = []
    orig = lc._solution_basis_finder

    def spy(*a, **k):
        r = orig(*a, **k)
        dims.append(len(r))
        return r

    lc._solution_basis_finder = spy
    try:
        ans, sol = guarded(sub, icls, lc.is_lc_equivalent, a1.copy(), a2.copy())
    finally:
        lc._solution_basis_finder = orig
    if dims and dims[0] >= 5:
        cl.append("solspace>=5")
    if not np.array_equal(a1, rg.adj_from_mask(n, m1)) or not np.array_equal(a2, rg.adj_from_mask(n, m2)):
        raise Violation(sub, "argument-mutated", "is_lc_equivalent", icls, "adjacency matrices changed")
    if bool(ans) != truth:
        raise Violation(sub, "false-yes" if ans else "false-no", "is_lc_equivalent", icls,
                        "answer %s, orbit table says %s" % (ans, truth))
    v1, v2 = rg.graph_state(n, m1), rg.graph_state(n, m2)
    g1, g2 = rg.to_nx(n, m1), rg.to_nx(n, m2)
    if ans:
        # the local-complementation sequence transforms the first graph into the second
        # the caller's arrays (platform int dtype, as adjacency matrices usually are) are handed over directly and used again below
        x1, x2 = a1.astype(int).copy(), a2.astype(int).copy()
        seq = guarded(sub, icls, lc.lc_graph_operations, x1, sol)
        if not np.array_equal(x1, a1):
            raise Violation(sub, "argument-mutated", "lc_graph_operations", icls, "the adjacency matrix passed in was overwritten")
        m = m1
        for v in seq:
            m = rg.local_complement(n, m, int(v))
        if m != m2:
            raise Violation(sub, "lc-sequence", "lc_graph_operations", icls, "sequence %s turns G1 into mask %d, not G2" % (list(seq), m))
        seq2 = guarded(sub, icls, lc.find_lc_operations, x1, x2)
        if not (np.array_equal(x1, a1) and np.array_equal(x2, a2)):
            raise Violation(sub, "argument-mutated", "find_lc_operations", icls, "an adjacency matrix passed in was overwritten")
        m = m1
        for v in seq2:
            m = rg.local_complement(n, m, int(v))
        if m != m2:
            raise Violation(sub, "lc-sequence", "find_lc_operations", icls, "sequence %s turns G1 into mask %d, not G2" % (list(seq2), m))
        # the single-qubit Clifford gates transform |G1> exactly into |G2>
        gates = guarded(sub, icls, converter_gate_list, g1, g2)
        if not sv.same_state(apply_gates(v1, n, gates), v2):
            raise Violation(sub, "gates-wrong", "converter_gate_list", icls, "gates %s do not map |G1> to |G2>" % (gates,))
    # lc_check on several input types
    kinds = case.get("kinds", ["graph"])
    for kind in kinds:
        if kind == "graph":
            s1, s2 = g1, g2
        elif kind == "array":
            s1, s2 = a1.astype(float), a2.astype(float)
        elif kind in ("stab", "clifford"):
            from graphiq.backends.stabilizer.functions.rep_conversion import (
                get_clifford_tableau_from_graph, get_stabilizer_tableau_from_graph)

            f = get_stabilizer_tableau_from_graph if kind == "stab" else get_clifford_tableau_from_graph
            s1, s2 = f(g1), f(g2)
        else:
            continue
        try:
            res, gl = guarded(sub, icls + ":" + kind, lc_check, s1, s2, allow=(Warning,))
        except Warning as w:
            raise Violation(sub, "gates-wrong", "lc_check", icls + ":" + kind, "lc_check's own validation failed: %s" % w)
        if bool(res) != truth:
            raise Violation(sub, "false-yes" if res else "false-no", "lc_check", icls + ":" + kind, "lc_check says %s" % res)
        if res and not sv.same_state(apply_gates(v1, n, gl), v2):
            raise Violation(sub, "gates-wrong", "lc_check", icls + ":" + kind, "gates %s do not map state1 to state2" % (gl,))
    # Graph.lc_equivalent
    G1, G2 = Graph(g1), Graph(g2)
    r = guarded(sub, icls, G1.lc_equivalent, G2)
    r0 = r[0] if isinstance(r, tuple) else r
    if bool(r0) != truth:
        raise Violation(sub, "false-yes" if r0 else "false-no", "Graph.lc_equivalent", icls, "answer %s" % (r0,))
    if n <= 6 and m1 and not case.get("blocks"):
        # the same Graph object after an in-place edit of its networkx graph (one edge removed): asked again
        e_ = rg.edges_from_mask(n, m1)[case.get("seed", 0) % len(rg.edges_from_mask(n, m1))]
        Gx, Gy = Graph(rg.to_nx(n, m1)), Graph(rg.to_nx(n, m2))  # objects of their own (Graph keeps the networkx graph it is given)
        guarded(sub, icls + ":edited_in_place", Gx.lc_equivalent, Gy)
        nodes_ = list(Gx.data.nodes)
        Gx.data.remove_edge(nodes_[e_[0]], nodes_[e_[1]])
        m1b = m1 ^ (1 << rg.pairs(n).index(e_))
        truth_b = rg.lc_equivalent(n, m1b, m2)
        rb = guarded(sub, icls + ":edited_in_place", Gx.lc_equivalent, Gy)
        rb0 = rb[0] if isinstance(rb, tuple) else rb
        if bool(rb0) != truth_b:
            raise Violation(sub, "false-yes" if rb0 else "false-no", "Graph.lc_equivalent", icls + ":edited_in_place",
                            "after removing an edge of the same Graph object: answer %s, orbit table says %s" % (rb0, truth_b))
        cl.append("graph_object_edited_then_asked_again")
    # random mode: sound, possibly incomplete
    ansr, solr = guarded(sub, icls, lc.is_lc_equivalent, a1.copy(), a2.copy(), mode="random", seed=case.get("seed", 0))
    if ansr and not truth:
        raise Violation(sub, "false-yes", "is_lc_equivalent:random", icls, "random mode invents an equivalence")
    if ansr:
        seq = guarded(sub, icls, lc.lc_graph_operations, a1.copy(), solr)
        m = m1
        for v in seq:
            m = rg.local_complement(n, m, int(v))
        if m != m2:
            raise Violation(sub, "lc-sequence", "lc_graph_operations:random", icls, "sequence does not reach G2")
    elif truth:
        cl.append("random_mode_incomplete")
    if ans and case.get("circuit"):
        from graphiq.backends.stabilizer.compiler import StabilizerCompiler
        from graphiq.state import QuantumState
        from graphiq.backends.stabilizer.functions.rep_conversion import get_clifford_tableau_from_graph

        circ = guarded(sub, icls, state_converter_circuit, g1, g2)
        comp = StabilizerCompiler()
        st1 = QuantumState(get_clifford_tableau_from_graph(g1), rep_type="s")
        out = guarded(sub, icls, comp.compile, circ, initial_state=st1)
        if not rp.denotes(out.rep_data.tableau, v2, n):
            raise Violation(sub, "gates-wrong", "state_converter_circuit", icls, "circuit does not produce |G2>")
    return Info(nontrivial=("equivalent_different" in cl or "inequivalent_same_edges" in cl), classes=cl)


def check_localcomp(case, sub="localcomp"):
    import graphiq.backends.lc_equivalence_check as lc
    from graphiq.backends.graph.state import Graph

    n, mask = case["n"], case["mask"]
    g = rg.to_nx(n, mask)
    for v in range(n):
        want = rg.local_complement(n, mask, v)
        h = guarded(sub, "plain", lc.local_comp_graph, g, v)
        import networkx as nx

        got = rg.mask_from_adj(nx.to_numpy_array(h, nodelist=sorted(h.nodes())).astype(int))
        if got != want or h.number_of_nodes() != n or nx.number_of_selfloops(h):
            raise Violation(sub, "local-complement", "local_comp_graph", "plain",
                            "vertex %d: got mask %d want %d (self loops: %d)" % (v, got, want, nx.number_of_selfloops(h)))
        hh = guarded(sub, "plain", lc.local_comp_graph, h, v)
        if rg.mask_from_adj(nx.to_numpy_array(hh, nodelist=sorted(hh.nodes())).astype(int)) != mask:
            raise Violation(sub, "not-involution", "local_comp_graph", "plain", "vertex %d" % v)
        G = Graph(rg.to_nx(n, mask))
        guarded(sub, "plain", G.local_complementation, v)
        got2 = rg.mask_from_adj(nx.to_numpy_array(G.data, nodelist=sorted(G.data.nodes())).astype(int))
        if got2 != want or nx.number_of_selfloops(G.data):
            raise Violation(sub, "local-complement", "Graph.local_complementation", "plain",
                            "vertex %d: got mask %d want %d" % (v, got2, want))
    return Info(nontrivial=bin(mask).count("1") >= 2, classes=gg.classes(n, mask))


def check_tableau_pair(case, sub="tableaux"):
    """lc_check on general stabilizer states (n<=3): ground truth by brute force over the 24^n local Cliffords"""
    from graphiq.backends.stabilizer.functions.local_cliff_equi_check import lc_check

    n = case["a"]["n"]
    Sa, Da, va = gs.present(case["a"])
    Sb, Db, vb = gs.present(dict(case["b"], n=n))
    truth = local_clifford_equivalent(va, vb, n)
    icls = "equivalent" if truth else "inequivalent"
    ta = gs.clifford_tableau(Sa, Da, n) if case.get("clifford") else gs.stabilizer_tableau(Sa, n)
    tb = gs.clifford_tableau(Sb, Db, n) if case.get("clifford") else gs.stabilizer_tableau(Sb, n)
    try:
        res, gl = guarded(sub, icls, lc_check, ta, tb, allow=(Warning,))
    except Warning as w:
        raise Violation(sub, "gates-wrong", "lc_check", icls, "lc_check's own validation failed: %s" % w)
    if bool(res) != truth:
        raise Violation(sub, "false-yes" if res else "false-no", "lc_check", icls, "lc_check says %s" % res)
    if res and not sv.same_state(apply_gates(va, n, gl), vb):
        raise Violation(sub, "gates-wrong", "lc_check", icls, "gates %s do not map state1 to state2" % (gl,))
    cl = gs.classes(Sa, n) + [icls]
    return Info(nontrivial=("non_graph_form" in cl), classes=cl)


_C1 = None


def one_qubit_cliffords():
    global _C1
    if _C1 is None:
        mats = [np.eye(2, dtype=complex)]
        gens = [sv.GATES["H"], sv.GATES["P"]]
        todo = list(mats)
        while todo:
            u = todo.pop()
            for g in gens:
                w = g @ u
                if not any(abs(abs(np.trace(w.conj().T @ x)) - 2) < 1e-9 for x in mats):
                    mats.append(w)
                    todo.append(w)
        assert len(mats) == 24
        _C1 = mats
    return _C1


def local_clifford_equivalent(va, vb, n):
    import itertools

    cl = one_qubit_cliffords()
    for combo in itertools.product(range(24), repeat=n):
        v = va
        for q, c in enumerate(combo):
            v = sv.apply1(v, n, q, cl[c])
        if abs(abs(np.vdot(v, vb)) - 1) < 1e-9:
            return True
    return False


def enum_pairs(tier, seed):
    rng = __import__("random").Random(seed)
    cases = []
    top = 4 if tier == "quick" else 5
    for n in range(1, top + 1):
        N = rg.n_masks(n)
        for m1 in range(N):
            for m2 in range(N):
                c = {"n": n, "m1": m1, "m2": m2, "seed": rng.randrange(1000)}
                if n <= 3 or rng.random() < (0.15 if n == 4 else 0.002):
                    c["kinds"] = ["graph", "array", "stab", "clifford"]
                    c["circuit"] = True
                else:
                    c["kinds"] = [rng.choice(["graph", "stab", "clifford"])] if (n == 4 or rng.random() < 0.05) else []
                cases.append(c)
    exhaustive = True
    # sampled n = 5 (quick), 6: members and near non-members of the orbit
    for n, count in ((5, 250 if tier == "quick" else 0), (6, 120 if tier == "quick" else 4000)):
        if not count:
            continue
        table = rg.orbit_table(n)
        by_edges = {}
        for m in range(rg.n_masks(n)):
            by_edges.setdefault(bin(m).count("1"), []).append(m)
        for _ in range(count):
            m1 = rng.randrange(rg.n_masks(n))
            orb = sorted(rg.lc_orbit(n, m1))
            for m2 in rng.sample(orb, min(2, len(orb))) + [m1]:
                cases.append({"n": n, "m1": m1, "m2": m2, "kinds": [rng.choice(["graph", "stab"])], "seed": rng.randrange(1000)})
            same = by_edges[bin(m1).count("1")]
            for _k in range(3):
                m2 = rng.choice(same)
                cases.append({"n": n, "m1": m1, "m2": m2, "kinds": [], "seed": rng.randrange(1000)})
    return cases, exhaustive


@st.composite
def st_union(draw):
    """disjoint unions of small graphs on interleaved vertex sets, n = 7..12; the second graph is reached by random local
    complementations (equivalent) or has one block replaced / one edge toggled inside a block (mostly inequivalent)"""
    n = draw(st.integers(7, 12))
    perm = draw(st.permutations(list(range(n))))
    blocks = []
    i = 0
    while i < n:
        k = min(n - i, draw(st.integers(1, 5)))
        blocks.append(sorted(perm[i:i + k]))
        i += k
    pairs = rg.pairs(n)
    m1 = 0
    for b in blocks:
        for x in range(len(b)):
            for y in range(x + 1, len(b)):
                # connected-ish blocks: a path plus random chords
                if y == x + 1 or draw(st.booleans()):
                    m1 |= 1 << pairs.index((b[x], b[y]))
    m2 = m1
    for v in draw(st.lists(st.integers(0, n - 1), max_size=8)):
        m2 = rg.local_complement(n, m2, v)
    how = draw(st.sampled_from(["orbit", "orbit", "toggle", "same"]))
    if how == "same":
        m2 = m1
    elif how == "toggle":
        b = draw(st.sampled_from([b for b in blocks if len(b) >= 2] or [blocks[0]]))
        if len(b) >= 2:
            x, y = sorted(draw(st.lists(st.sampled_from(b), min_size=2, max_size=2, unique=True)))
            m2 ^= 1 << pairs.index((x, y))
    return {"n": n, "m1": m1, "m2": m2, "blocks": blocks, "kinds": [draw(st.sampled_from(["graph", "array", "stab"]))],
            "seed": draw(st.integers(0, 999))}


def enum_localcomp(tier, seed):
    return gg.all_graphs(4 if tier == "quick" else 5), True


def strat_tableaux(tier):
    a = gs.st_state(1, 3, max_word=10, max_rowops=6)

    @st.composite
    def pair(draw):
        x = draw(a)
        n = x["n"]
        kind = draw(st.sampled_from(["local", "indep", "local"]))
        if kind == "local":
            extra = draw(st.lists(st.tuples(st.sampled_from(["H", "P", "X", "Z", "Pdag"]), st.integers(0, n - 1)).map(list), max_size=4))
            y = {"n": n, "word": x["word"] + extra, "rowops": draw(gs.st_rowops(n - 1, 4))}
        else:
            y = draw(gs.st_state(n, n, max_word=10, max_rowops=6))
        return {"a": x, "b": y, "clifford": draw(st.booleans())}

    return pair()


SUBS = [
    Sub("pairs", check_pair, enum=enum_pairs, timeout={"quick": 30, "thorough": 60},
        doc="all ordered pairs of labelled graphs n<=4 (quick) / n<=5 (thorough) + sampled n=5/6 orbit members and near misses"),
    Sub("unions", check_pair, strategy=lambda tier: st_union(), n={"quick": 25, "thorough": 600}, timeout={"quick": 60, "thorough": 120},
        doc="7..12 vertices: disjoint unions of blocks of <= 5 interleaved vertices; truth block by block from the orbit table"),
    Sub("localcomp", check_localcomp, enum=enum_localcomp, doc="local complementation on every (graph, vertex), n<=4/5"),
    Sub("tableaux", check_tableau_pair, strategy=strat_tableaux, n={"quick": 40, "thorough": 600},
        doc="lc_check on general stabilizer states n<=3 in random generating sets, truth by brute force over 24^n local Cliffords"),
]
