"""C17 - density-matrix fidelity, trace distance and partial trace are computed correctly."""
import itertools

import numpy as np
from hypothesis import strategies as st

from ..core import Info, Skip, Violation, guarded
from ..engine import Sub
from ..gen import stab as gs
from ..ref import pauli as rp
from ..ref import statevec as sv

ID = "C17"
RULE = (
    "pairs / triples of density matrices on 1-3 qubits (thorough: 4) built from seeded complex Ginibre matrices: pure, "
    "full-rank mixed, low-rank mixed, diagonal, nearly pure, and related pairs (equal, unitarily rotated, orthogonal supports, "
    "mixtures of one another); partial_trace over every subset of subsystems for general dims (qubits and qutrits) of "
    "entangled mixed states; stabilizer states (n<=4) for the Infidelity metric in both representations. Non-trivial = both "
    "states mixed, non-commuting and complex, or a kept subset that is neither empty nor everything of an entangled state. "
    "Distinct = SHA-1."
)
ASSUMPTIONS = ["reference Uhlmann fidelity via eigh (cross-checked against the nuclear-norm formula in the self-test), tolerance 1e-7",
               "inputs that graphiq's own is_density_matrix rejects are counted as rejected_by_precondition (at most a few %)"]
REQUIRED_CLASSES = {"pairs": ["mixed-mixed", "pure-mixed", "pure-pure", "equal", "orthogonal", "low_rank", "almost_pure_band"],
                    "ptrace": ["qutrit", "entangled", "middle_subset", "keep_not_ascending"], "metric": ["state_graph", "state_not_graph"]}

TOL = 1e-7


def make_dm(spec, d):
    """spec = [kind, seed, rank]"""
    kind, seed, rank = spec
    rng = np.random.default_rng(seed)
    a = rng.normal(size=(d, d)) + 1j * rng.normal(size=(d, d))
    if kind == "pure":
        v = a[:, 0] / np.linalg.norm(a[:, 0])
        return np.outer(v, v.conj())
    if kind == "full":
        rho = a @ a.conj().T
    elif kind == "low":
        r = max(1, min(rank, d - 1)) if d > 1 else 1
        b = a[:, :r]
        rho = b @ b.conj().T
    elif kind == "diag":
        rho = np.diag(np.abs(rng.normal(size=d)) + 0.01).astype(complex)
    elif kind == "nearly_pure":
        v = a[:, 0] / np.linalg.norm(a[:, 0])
        rho = 0.999 * np.outer(v, v.conj()) + 0.001 * np.eye(d) / d
    elif kind == "band":
        # almost pure: purity 1 - O(1e-5 .. 1e-9), the band in which a loose purity test would still say "pure"
        v = a[:, 0] / np.linalg.norm(a[:, 0])
        e = 10.0 ** (-(5 + seed % 5))
        w = a[:, 1 % d] - np.vdot(v, a[:, 1 % d]) * v if d > 1 else v
        w = w / np.linalg.norm(w)
        rho = (1 - e) * np.outer(v, v.conj()) + e * np.outer(w, w.conj())
    elif kind == "real":
        b = a.real
        rho = (b @ b.T).astype(complex)
    else:
        raise ValueError(kind)
    rho = (rho + rho.conj().T) / 2
    return rho / np.trace(rho).real


def related(rho, how, seed):
    d = rho.shape[0]
    rng = np.random.default_rng(seed)
    if how == "equal":
        return rho.copy()
    if how == "rotated":
        a = rng.normal(size=(d, d)) + 1j * rng.normal(size=(d, d))
        q, _ = np.linalg.qr(a)
        return q @ rho @ q.conj().T
    if how == "mixture":
        other = make_dm(["full", seed + 1, 1], d)
        return 0.5 * rho + 0.5 * other
    if how == "orthogonal":
        w, v = np.linalg.eigh(rho)
        k = max(1, d // 2)
        # supports on complementary eigenvector sets of a random basis
        a = rng.normal(size=(d, d)) + 1j * rng.normal(size=(d, d))
        q, _ = np.linalg.qr(a)
        p1 = q[:, :k] @ np.diag(np.abs(rng.normal(size=k)) + 0.1) @ q[:, :k].conj().T
        p2 = q[:, k:] @ np.diag(np.abs(rng.normal(size=d - k)) + 0.1) @ q[:, k:].conj().T
        return (p1 / np.trace(p1).real, p2 / np.trace(p2).real)
    raise ValueError(how)


def check_pair(case, sub="pairs"):
    import graphiq.backends.density_matrix.functions as dmf

    n = case["n"]
    d = 2**n
    rho = make_dm(case["a"], d)
    how = case.get("rel", "indep")
    cl = []
    if how == "indep":
        sigma = make_dm(case["b"], d)
    elif how == "orthogonal":
        rho, sigma = related(rho, how, case["b"][1])
        cl.append("orthogonal")
    else:
        sigma = related(rho, how, case["b"][1])
        if how == "equal":
            cl.append("equal")
    tau = make_dm(case["c"], d)
    for m in (rho, sigma, tau):
        if not dmf.is_density_matrix(m):
            raise Skip("graphiq's is_density_matrix rejects the generated matrix")
    pa = np.trace(rho @ rho).real > 1 - 1e-9
    pb = np.trace(sigma @ sigma).real > 1 - 1e-9
    kindc = "pure-pure" if (pa and pb) else ("pure-mixed" if (pa or pb) else "mixed-mixed")
    cl.append(kindc)
    if case["a"][0] == "low" or (how == "indep" and case["b"][0] == "low"):
        cl.append("low_rank")
    for m in (rho, sigma):
        if 1e-9 < 1 - np.trace(m @ m).real < 1e-4:
            cl.append("almost_pure_band")
    icls = kindc
    F = sv.fidelity(rho, sigma)
    T = sv.trace_distance(rho, sigma)
    r0, s0 = rho.copy(), sigma.copy()
    f1 = guarded(sub, icls, dmf.fidelity, rho, sigma)
    f2 = guarded(sub, icls, dmf.fidelity, sigma, rho)
    if not (np.array_equal(rho, r0) and np.array_equal(sigma, s0)):
        raise Violation(sub, "argument-mutated", "fidelity", icls, "inputs changed")
    if not np.isreal(f1) or abs(f1 - F) > TOL:
        raise Violation(sub, "fidelity-value", "fidelity", icls, "fidelity %r, reference %r" % (f1, F))
    if abs(f1 - f2) > TOL:
        raise Violation(sub, "fidelity-asymmetric", "fidelity", icls, "%r vs %r" % (f1, f2))
    if f1 < -1e-12 or f1 > 1 + 1e-12:
        raise Violation(sub, "fidelity-range", "fidelity", icls, repr(f1))
    fe = guarded(sub, icls, dmf.fidelity, rho, rho.copy())
    if abs(fe - 1) > TOL:
        raise Violation(sub, "fidelity-value", "fidelity", "equal", "F(rho,rho) = %r" % fe)
    t1 = guarded(sub, icls, dmf.trace_distance, rho, sigma)
    t2 = guarded(sub, icls, dmf.trace_distance, sigma, rho)
    if not (np.array_equal(rho, r0) and np.array_equal(sigma, s0)):
        raise Violation(sub, "argument-mutated", "trace_distance", icls, "inputs changed")
    if abs(t1 - T) > TOL or abs(t1 - t2) > TOL or t1 > 1 + TOL or t1 < -TOL:
        raise Violation(sub, "trace-distance", "trace_distance", icls, "%r / %r, reference %r" % (t1, t2, T))
    t0 = guarded(sub, icls, dmf.trace_distance, rho, rho.copy())
    if abs(t0) > TOL:
        raise Violation(sub, "trace-distance", "trace_distance", "equal", "T(rho,rho) = %r" % t0)
    # metric: triangle inequality and Fuchs - van de Graaf with the library's own values
    tac = guarded(sub, icls, dmf.trace_distance, rho, tau)
    tcb = guarded(sub, icls, dmf.trace_distance, tau, sigma)
    if t1 > tac + tcb + 1e-7:
        raise Violation(sub, "triangle", "trace_distance", icls, "%r > %r + %r" % (t1, tac, tcb))
    if not (1 - np.sqrt(max(f1, 0)) <= t1 + 1e-6 and t1 <= np.sqrt(max(1 - f1, 0)) + 1e-6):
        raise Violation(sub, "fuchs-van-de-graaf", "fidelity/trace_distance", icls, "F=%r T=%r" % (f1, t1))
    comm = np.linalg.norm(rho @ sigma - sigma @ rho) > 1e-6
    cplx = np.abs(rho.imag).max() > 1e-6
    return Info(nontrivial=(kindc == "mixed-mixed" and comm and cplx), classes=cl)


def check_ptrace(case, sub="ptrace"):
    import graphiq.backends.density_matrix.functions as dmf
    from graphiq.backends.density_matrix.state import DensityMatrix

    dims = case["dims"]
    D = int(np.prod(dims))
    rho = make_dm(case["a"], D)
    given = []
    for k in case["keep"]:
        if k % len(dims) not in given:
            given.append(k % len(dims))
    keep = sorted(given)
    want = sv.partial_trace_textbook(rho, keep, dims)
    cl = []
    r0 = rho.copy()
    got = guarded(sub, "plain", dmf.partial_trace, rho, keep, dims)
    if not np.array_equal(rho, r0):
        raise Violation(sub, "argument-mutated", "partial_trace", "plain", "input changed")
    got = np.asarray(got)
    if got.shape != want.shape or np.linalg.norm(got - want) > 1e-9:
        raise Violation(sub, "partial-trace", "partial_trace", "plain",
                        "keep %s of dims %s: differs from the textbook reduced state (trace %r)" % (keep, dims, complex(np.trace(got))))
    if given != keep:
        # the kept subsystems listed in another order: the reduced state of that subset, with the subsystems either in
        # ascending order (what graphiq does) or in the order listed
        cl.append("keep_not_ascending")
        kd = [dims[i] for i in keep]
        perm = [keep.index(i) for i in given]
        t = want.reshape(kd + kd).transpose(perm + [len(kd) + x for x in perm])
        want_given = t.reshape(want.shape)
        got2 = np.asarray(guarded(sub, "unordered_keep", dmf.partial_trace, rho, list(given), dims))
        if got2.shape != want.shape or min(np.linalg.norm(got2 - want), np.linalg.norm(got2 - want_given)) > 1e-9:
            raise Violation(sub, "partial-trace", "partial_trace", "unordered_keep",
                            "keep %s of dims %s: not the reduced state of that subset in either order" % (given, dims))
    if any(x == 3 for x in dims):
        cl.append("qutrit")
    if case["a"][0] != "diag":
        cl.append("entangled")
    mid = 0 < len(keep) < len(dims) and keep != list(range(len(keep)))
    if mid:
        cl.append("middle_subset")
    if all(x == 2 for x in dims):
        dm_obj = DensityMatrix(rho.copy())
        guarded(sub, "plain", dm_obj.partial_trace, keep, dims)
        if np.linalg.norm(np.asarray(dm_obj.data) - want) > 1e-9:
            raise Violation(sub, "partial-trace", "DensityMatrix.partial_trace", "plain", "differs from the textbook reduced state")
    return Info(nontrivial=(0 < len(keep) < len(dims) and case["a"][0] != "diag"), classes=cl)


def check_metric(case, sub="metric"):
    """Infidelity: same value whether target and state are density matrices or stabilizers"""
    from graphiq.metrics import Infidelity
    from graphiq.state import QuantumState

    a, b = case["a"], dict(case["b"], n=case["a"]["n"])
    n = a["n"]
    Sa, Da, va = gs.present(a)
    Sb, Db, vb = gs.present(b)
    F = sv.overlap2(va, vb)
    b_signs = bool(np.any(gs.xzr_arrays(Sb, n)[1]))
    # is the state a graph state exactly (generators X_i prod Z_nbrs with + signs span the same group)?
    b_graph = False
    xs = [p[0] for p in Sb]
    if rp.gf2_rank(xs) == n:
        # reduce to X part = identity: the group is a graph state's iff the reduced generators are X_i Z_{N(i)} with sign +, no Y
        key = rp.group_key(Sb, n)
        from ..ref import graphs as rg
        for mask in range(rg.n_masks(n)):
            if rp.group_key(rg.graph_stabilizers(n, mask), n) == key:
                b_graph = True
                break
    cl = ["state_graph" if b_graph else "state_not_graph", "state_negative_sign" if b_signs else "state_positive_signs"]
    for ta in ("s", "dm"):
        for tb in ("s", "dm"):
            target = QuantumState(gs.clifford_tableau(Sa, Da, n), rep_type="s") if ta == "s" else QuantumState(sv.dm(va), rep_type="dm")
            state = QuantumState(gs.clifford_tableau(Sb, Db, n), rep_type="s") if tb == "s" else QuantumState(sv.dm(vb), rep_type="dm")
            site = "Infidelity:%s/%s" % (ta, tb)
            if ta == tb:
                cls_ = "same_rep"
            elif tb == "s":  # state converted s -> dm (sign-blind converter)
                cls_ = "state_negative_sign" if b_signs else "state_positive_signs"
            else:  # state converted dm -> s (documented to work for graph states only)
                cls_ = "state_graph" if b_graph else "state_not_graph"
            try:
                val = guarded(sub, cls_, Infidelity(target).evaluate, state, None)
                if abs((1 - val) - F) > TOL:
                    raise Violation(sub, "infidelity-value", site, cls_, "1 - infidelity = %r, |<a|b>|^2 = %r" % (1 - val, F))
            except Violation as v:
                if cls_ == "state_not_graph" and v.key[1].startswith("exception"):
                    # any failure mode of the graph-state-only converter on a non-graph state is the same finding
                    raise Violation(sub, "infidelity-value", site, cls_, v.detail)
                raise
    # one metric object, its target replaced between two evaluations (same representation): the second value is about the new target
    for rep in ("s", "dm"):
        mk = (lambda S, D, v: QuantumState(gs.clifford_tableau(S, D, n), rep_type="s")) if rep == "s" else (lambda S, D, v: QuantumState(sv.dm(v), rep_type="dm"))
        metric = Infidelity(mk(Sa, Da, va))
        v1 = guarded(sub, "target_replaced", metric.evaluate, mk(Sb, Db, vb), None)
        metric.target = mk(Sb, Db, vb)
        v2 = guarded(sub, "target_replaced", metric.evaluate, mk(Sb, Db, vb), None)
        if abs((1 - v1) - F) > TOL or abs(v2) > TOL:
            raise Violation(sub, "infidelity-value", "Infidelity:%s/%s" % (rep, rep), "target_replaced",
                            "metric object re-used with another target: values %r then %r, expected %r then 0" % (v1, v2, 1 - F))
    cl.append("metric_reused_with_other_target")
    return Info(nontrivial=(0 < F < 1), classes=cl)


SPEC = st.tuples(st.sampled_from(["pure", "full", "full", "low", "diag", "nearly_pure", "real", "band"]), st.integers(0, 10**6), st.integers(1, 3)).map(list)


def strat_pairs(tier):
    return st.fixed_dictionaries({
        "n": st.integers(1, 3 if tier == "quick" else 4), "a": SPEC, "b": SPEC, "c": SPEC,
        "rel": st.sampled_from(["indep", "indep", "indep", "equal", "rotated", "mixture", "orthogonal"]),
    })


def strat_ptrace(tier):
    dims = st.lists(st.sampled_from([2, 2, 2, 3]), min_size=1, max_size=4 if tier == "quick" else 5)
    return st.fixed_dictionaries({"dims": dims, "a": SPEC, "keep": st.lists(st.integers(0, 9), max_size=5)})


def enum_ptrace(tier, seed):
    cases = []
    for dims in ([2, 2], [2, 2, 2], [2, 3], [3, 2, 2], [2, 2, 2, 2]):
        for k in range(len(dims) + 1):
            for keep in itertools.combinations(range(len(dims)), k):
                for kind in ("full", "pure"):
                    cases.append({"dims": dims, "a": [kind, 17 + len(dims), 2], "keep": list(keep)})
    return cases, False


def strat_metric(tier):
    a = gs.st_state(1, 3 if tier == "quick" else 4, max_word=15, max_rowops=6)

    @st.composite
    def pair(draw):
        x = draw(a)
        n = x["n"]
        k = draw(st.integers(0, 3))
        if k == 0:
            # graph states (in graph form): the one class the dm -> stabilizer converter supports
            from ..ref import graphs as rg
            m1, m2 = draw(st.integers(0, rg.n_masks(n) - 1)), draw(st.integers(0, rg.n_masks(n) - 1))
            gw = lambda m: [["H", q] for q in range(n)] + [["CZ", a_, b_] for a_, b_ in rg.edges_from_mask(n, m)]
            return {"a": {"n": n, "word": gw(m1), "rowops": []}, "b": {"n": n, "word": gw(m2), "rowops": []}}
        if k == 1:
            y = draw(gs.st_state(n, n, max_word=15, max_rowops=6))
        else:
            y = {"n": n, "word": x["word"] + draw(gs.st_word(n - 1, 3)), "rowops": draw(gs.st_rowops(max(n - 1, 0), 4))}
        return {"a": x, "b": y}

    return pair()


SUBS = [
    Sub("pairs", check_pair, strategy=strat_pairs, n={"quick": 250, "thorough": 5000}),
    Sub("ptrace", check_ptrace, strategy=strat_ptrace, n={"quick": 100, "thorough": 2000}),
    Sub("ptrace_subsets", lambda c: check_ptrace(c, "ptrace"), enum=enum_ptrace, doc="every subset of subsystems for dims [2,2] [2,2,2] [2,3] [3,2,2] [2,2,2,2]"),
    Sub("metric", check_metric, strategy=strat_metric, n={"quick": 60, "thorough": 1000}),
]
