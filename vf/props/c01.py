"""C01 - both simulation backends compute the state the circuit defines.

generator -> graphiq compile (both backends x 3 measurement settings) -> dense textbook reference.
The compiler hook (GRAPHIQ_VERIF=1) reports the executed operation order and the classical record.
"""
import itertools

import numpy as np
from hypothesis import strategies as st

from ..core import Info, Violation, guarded
from ..engine import Sub
from ..gen import circuits as gc
from ..ref import pauli as rp
from ..ref import statevec as sv

ID = "C01"
RULE = (
    "circuits drawn from the full alphabet {I,H,P,Pdag,X,Y,Z,wrappers,CNOT,CZ,classical CNOT/CZ,measure-CNOT-reset,"
    "Z-measure} on any emitter/photon/classical mix, each compiled by both backends under settings 0, 1 and "
    "'probabilistic' (RNG seeded from the case), optionally from a random initial stabilizer state; plus the complete "
    "set of short programs on 1 emitter+1 photon+1 classical register. Non-trivial = at least one entangling gate and at "
    "least one measuring operation; distinct = distinct SHA-1 of the canonical case descriptor."
)
ASSUMPTIONS = [
    "dense reference simulator vf/ref/statevec.py (textbook gate matrices, Born rule) is correct; cross-checked against "
    "the independent Pauli-algebra simulator in the self-test",
    "tolerances: 1e-9 on state overlaps, 1e-8 Frobenius on density matrices",
]
REQUIRED_CLASSES = {
    "random": ["entangling", "measuring", "random_outcome", "det_outcome_1", "op_after_mcr_on_register",
               "wrapper_len>=2", "emitter+photon", "initial_state", "creg_reused", "compiler_reused"],
    "large": ["entangling", "measuring", "random_outcome", "register_index>=10", "emitter+photon"],
    "incremental": ["recompiled_after_growth", "entangling", "measuring"],
    "shared_compiler": ["same_size_other_split", "entangling", "measuring"],
    "parity": ["det_outcome_1", "entangling", "measuring"],
}

SETTINGS = [0, 1, "probabilistic"]


def _compilers():
    from graphiq.backends.density_matrix.compiler import DensityMatrixCompiler
    from graphiq.backends.stabilizer.compiler import StabilizerCompiler

    return {"stab": StabilizerCompiler, "dm": DensityMatrixCompiler}


def initial_from_word(n, word):
    """reference: apply a Clifford word to |0..0>; returns (vector, PauliSim)"""
    v = sv.zero_state(n)
    ps = rp.PauliSim(n)
    for w in word:
        if w[0] in ("CNOT", "CZ"):
            a, b = w[1] % n, w[2] % n
            if a == b:
                continue
            if w[0] == "CNOT":
                v = sv.cnot(v, n, a, b)
                ps.cnot(a, b)
            else:
                v = sv.cz(v, n, a, b)
                ps.cz(a, b)
        else:
            q = w[1] % n
            v = sv.apply1(v, n, q, sv.GATES[w[0]])
            ps.gate1(w[0], q)
    return v, ps


def tableau_from_sim(ps):
    """graphiq CliffordTableau holding the reference simulator's generators (no graphiq gate code involved)"""
    from graphiq.backends.stabilizer.clifford_tableau import CliffordTableau

    n = ps.n
    table = np.zeros((2 * n, 2 * n), dtype=int)
    phase = np.zeros(2 * n, dtype=int)
    for i, p in enumerate(list(ps.destab) + list(ps.stab)):
        xb, zb, r = rp.to_xzr(p, n)
        table[i, :n] = xb
        table[i, n:] = zb
        phase[i] = r
    return CliffordTableau(table, phase)


def check_order(desc, reported):
    """the executed sequence must contain, for every register wire, exactly the model's operations in order"""
    model = gc.wires(desc, expanded=True)
    got = {k: [] for k in model}
    for d in reported:
        for q in gc.qregs(d):
            if q not in got:
                return "operation on unknown register %s" % (q,)
            got[q].append(d)
        for c in gc.cregs(d):
            got[("c", c)].append(d)
    for k in model:
        if got[k] != model[k]:
            return "wire %s%d: executed %s, circuit has %s" % (k[0], k[1], got[k], model[k])
    return None


def run_config(desc, backend, setting, seed, init, sub="compile", comp=None, circ=None):
    import graphiq.backends.compiler_base as cb
    from graphiq.state import QuantumState

    n = desc["ne"] + desc["np"]
    icls = "measuring" if any(gc.measuring(d) for d in desc["ops"]) else "unitary"
    site = "%s:%s" % (backend, setting if setting != "probabilistic" else "prob")
    circ = gc.build(desc) if circ is None else circ
    comp = _compilers()[backend]() if comp is None else comp
    comp.measurement_determinism = setting
    v0 = None
    init_state = None
    if init is not None:
        v0, ps = initial_from_word(n, init)
        if backend == "stab":
            init_state = QuantumState(tableau_from_sim(ps), rep_type="s")
        else:
            init_state = QuantumState(sv.dm(v0), rep_type="dm")
    events = []

    def cbk(kind, op, record):
        events.append((kind, op, record))

    np.random.seed(seed % (2**32))
    cb.verif_callback = cbk
    try:
        state = guarded(sub, icls, comp.compile, circ, initial_state=init_state) if init_state is not None else \
            guarded(sub, icls, comp.compile, circ)
    finally:
        cb.verif_callback = None
    if not events or events[-1][0] != "end":
        raise Violation(sub, "hook-incomplete", site, icls, "compile returned without the final report")
    reported = []
    records = []
    for i, (kind, op, rec) in enumerate(events[:-1]):
        d = gc.name_of(op)
        if d is None:
            continue
        reported.append(d)
        records.append(np.array(events[i + 1][2]).astype(float))
    final_record = np.array(events[-1][2]).astype(float)
    bad = check_order(desc, reported)
    if bad:
        raise Violation(sub, "order", site, icls, bad)
    ref = gc.RefRun(desc, v0)
    for d, rec in zip(reported, records):
        if gc.measuring(d):
            creg = gc.cregs(d)[0]
            if setting == "probabilistic":
                o = rec[creg]
                if o not in (0, 1):
                    raise Violation(sub, "record-not-binary", site, icls, "record %s after %s" % (rec.tolist(), d))
                o, p = ref.step(d, "follow", int(o))
                if p < sv.TOL:
                    raise Violation(sub, "impossible-outcome", site, icls,
                                    "outcome %d of %s has probability %.3g" % (o, d, p))
            else:
                o, p = ref.step(d, setting)
            if list(rec) != [float(x) for x in ref.creg]:
                raise Violation(sub, "classical-record", site, icls,
                                "after %s: record %s, reference %s" % (d, rec.tolist(), ref.creg))
        else:
            ref.step(d, setting)
    if list(final_record) != [float(x) for x in ref.creg]:
        raise Violation(sub, "classical-record", site, icls, "final record %s, reference %s" % (final_record.tolist(), ref.creg))
    if state.n_qubits != n:
        raise Violation(sub, "n_qubits", site, icls, "%s != %s" % (state.n_qubits, n))
    if backend == "stab":
        tab = state.rep_data.tableau
        probs = rp.clifford_tableau_problems(tab)
        if probs:
            raise Violation(sub, "invalid-tableau", site, icls, "; ".join(probs))
        if n > 0 and not rp.denotes(tab, ref.v, n):
            raise Violation(sub, "state-mismatch", site, icls,
                            "stabilizers %s (signs %s) do not denote the reference state" % (
                                tab.stabilizer_to_labels(), tab.phase[n:].tolist()))
    else:
        rho = np.asarray(state.rep_data.data)
        want = sv.dm(ref.v)
        err = float(np.linalg.norm(rho - want))
        if not err < 1e-8:
            raise Violation(sub, "state-mismatch", site, icls, "||rho - |psi><psi||| = %.3g" % err)
    return ref


def check_random(case):
    desc = case["circ"]
    n = desc["ne"] + desc["np"]
    cl = gc.classes_of(desc)
    init = case.get("init")
    if init is not None:
        cl.append("initial_state")
    n_random = n_det1 = 0
    finals = {}
    for backend in ("stab", "dm"):
        # one compiler object per backend, re-used for the three settings (odd seeds): nothing may carry over between compiles
        shared = _compilers()[backend]() if case["seed"] % 2 else None
        if shared is not None:
            cl.append("compiler_reused")
        for setting in SETTINGS:
            ref = run_config(desc, backend, setting, case["seed"], init, comp=shared)
            n_random += ref.n_random
            n_det1 += ref.n_det1
            finals[(backend, setting)] = ref.v
    if n_random:
        cl.append("random_outcome")
    if n_det1:
        cl.append("det_outcome_1")
    return Info(nontrivial=("entangling" in cl and "measuring" in cl), classes=cl)


def check_incremental(case, sub="incremental"):
    """a circuit object grown step by step and compiled after every stage by the same compiler objects: every compile must
    give the state of the circuit as it is at that moment"""
    from graphiq.circuit.circuit_dag import CircuitDAG

    desc = case["circ"]
    ops_ = desc["ops"]
    cuts = sorted({c for c in (len(ops_) // 3, (2 * len(ops_)) // 3, len(ops_)) if c > 0})
    circ = CircuitDAG(n_emitter=desc["ne"], n_photon=desc["np"], n_classical=desc["nc"])
    comps = {b: _compilers()[b]() for b in ("stab", "dm")}
    done = 0
    cl = gc.classes_of(desc)
    for cut in cuts:
        for d in ops_[done:cut]:
            guarded(sub, "add", circ.add, gc.make_op(d))
        done = cut
        prefix = dict(desc, ops=ops_[:cut])
        for backend in ("stab", "dm"):
            for setting in (0, 1):
                run_config(prefix, backend, setting, case["seed"], None, sub=sub, comp=comps[backend], circ=circ)
    if len(cuts) >= 2:
        cl.append("recompiled_after_growth")
    return Info(nontrivial=("entangling" in cl and len(cuts) >= 2), classes=cl)


def check_shared(case, sub="shared_compiler"):
    """one compiler object per backend compiles several different circuits in a row (same number of qubits, other split into
    emitters and photons, other operations): every result is that of the circuit being compiled"""
    comps = {b: _compilers()[b]() for b in ("stab", "dm")}
    cl = []
    splits = set()
    for desc in case["circs"]:
        splits.add((desc["ne"], desc["np"]))
        for backend in ("stab", "dm"):
            for setting in (0, 1):
                run_config(desc, backend, setting, case["seed"], None, sub=sub, comp=comps[backend])
        cl += gc.classes_of(desc)
    if len(splits) >= 2:
        cl.append("same_size_other_split")
    return Info(nontrivial=len(splits) >= 2, classes=sorted(set(cl)))


@st.composite
def st_shared(draw):
    nq = draw(st.integers(2, 4))
    circs = []
    for _ in range(draw(st.integers(2, 3))):
        ne = draw(st.integers(0, nq))
        nc = draw(st.integers(0, 2))
        ops_ = draw(st.lists(gc.st_op(ne, nq - ne, nc), min_size=1, max_size=10))
        circs.append({"ne": ne, "np": nq - ne, "nc": nc, "ops": ops_})
    return {"circs": circs, "seed": draw(st.integers(0, 2**31 - 1))}


@st.composite
def st_parity(draw):
    """basis states pushed through a CNOT network (the tableau's generators become products of many Z's), then measured:
    every outcome is fixed by the state and is the product of several generators; classically controlled gates follow"""
    ne = draw(st.integers(1, 3))
    np_ = draw(st.integers(1, 4))
    regs = [("e", i) for i in range(ne)] + [("p", i) for i in range(np_)]
    nc = draw(st.integers(1, 3))
    ops_ = [["X", t, r] for t, r in regs if draw(st.booleans())]
    for _ in range(draw(st.integers(4, 16))):
        a = draw(st.sampled_from(regs))
        b = draw(st.sampled_from([q for q in regs if q != a]))
        ops_.append(["CNOT", a[0], a[1], b[0], b[1]])
        if draw(st.integers(0, 3)) == 0:
            q = draw(st.sampled_from(regs))
            # a few Hadamards / phase gates: the generators then carry X and Y, and a qubit that was entangled and is
            # disentangled again by later CNOTs has a fixed outcome that is a product of three or more of them
            ops_.append([draw(st.sampled_from(["Z", "X", "I", "H", "H", "H", "P", "Pdag"])), q[0], q[1]])
    for _ in range(draw(st.integers(1, 4))):
        a = draw(st.sampled_from(regs))
        b = draw(st.sampled_from([q for q in regs if q != a]))
        kind = draw(st.sampled_from(["MZ", "CCNOT", "CCZ", "MCR"]))
        c = draw(st.integers(0, nc - 1))
        ops_.append(["MZ", a[0], a[1], c] if kind == "MZ" else [kind, a[0], a[1], b[0], b[1], c])
        if draw(st.booleans()):
            x = draw(st.sampled_from(regs))
            y = draw(st.sampled_from([q for q in regs if q != x]))
            ops_.append(["CNOT", x[0], x[1], y[0], y[1]])
    return {"circ": {"ne": ne, "np": np_, "nc": nc, "ops": ops_}, "seed": draw(st.integers(0, 2**31 - 1)), "init": None}


class PauliRun:
    """the same textbook execution on the Pauli-algebra simulator (any number of qubits)"""

    def __init__(self, desc):
        self.desc = desc
        self.n = desc["ne"] + desc["np"]
        self.ps = rp.PauliSim(self.n)
        self.creg = [0] * desc["nc"]
        self.n_random = 0
        self.n_det1 = 0

    def q(self, t, r):
        return gc.qindex(self.desc, t, r)

    def step(self, d, setting, outcome=None):
        g = d[0]
        if g in gc.ONE:
            if g != "I":
                self.ps.gate1(g, self.q(d[1], d[2]))
            return None, 1.0
        if g == "CNOT":
            self.ps.cnot(self.q(d[1], d[2]), self.q(d[3], d[4]))
            return None, 1.0
        if g == "CZ":
            self.ps.cz(self.q(d[1], d[2]), self.q(d[3], d[4]))
            return None, 1.0
        mq = self.q(d[1], d[2])
        want = int(outcome) if setting == "follow" else int(setting)
        o, rnd = self.ps.measure_z(mq, forced=want)
        p = 0.5 if rnd else (1.0 if (setting != "follow" or o == want) else 0.0)
        if rnd:
            self.n_random += 1
        elif o == 1:
            self.n_det1 += 1
        if g == "MZ":
            self.creg[d[3]] = o
            return o, p
        tq = self.q(d[3], d[4])
        if o == 1:
            self.ps.gate1("Z" if g == "CCZ" else "X", tq)
        if g == "MCR" and o == 1:
            self.ps.gate1("X", mq)
        self.creg[d[5]] = o
        return o, p


def check_large(case, sub="large"):
    """stabilizer backend on 9..24 registers (two-digit register indices) against the Pauli-algebra reference"""
    import graphiq.backends.compiler_base as cb

    desc = case["circ"]
    n = desc["ne"] + desc["np"]
    cl = gc.classes_of(desc)
    if max(desc["ne"], desc["np"]) > 10:
        cl.append("register_index>=10")
    icls = "measuring" if any(gc.measuring(d) for d in desc["ops"]) else "unitary"
    n_random = 0
    for setting in SETTINGS:
        site = "stab:%s" % (setting if setting != "probabilistic" else "prob")
        circ = gc.build(desc)
        comp = _compilers()["stab"]()
        comp.measurement_determinism = setting
        events = []
        np.random.seed(case["seed"] % (2**32))
        cb.verif_callback = lambda kind, op, record: events.append((kind, op, record))
        try:
            state = guarded(sub, icls, comp.compile, circ)
        finally:
            cb.verif_callback = None
        if not events or events[-1][0] != "end":
            raise Violation(sub, "hook-incomplete", site, icls, "compile returned without the final report")
        reported, records = [], []
        for i, (kind, op, rec) in enumerate(events[:-1]):
            d = gc.name_of(op)
            if d is None:
                continue
            reported.append(d)
            records.append(np.array(events[i + 1][2]).astype(float))
        bad = check_order(desc, reported)
        if bad:
            raise Violation(sub, "order", site, icls, bad)
        ref = PauliRun(desc)
        for d, rec in zip(reported, records):
            if gc.measuring(d):
                creg = gc.cregs(d)[0]
                if setting == "probabilistic":
                    o = rec[creg]
                    if o not in (0, 1):
                        raise Violation(sub, "record-not-binary", site, icls, "record %s after %s" % (rec.tolist(), d))
                    o, p = ref.step(d, "follow", int(o))
                    if p == 0.0:
                        raise Violation(sub, "impossible-outcome", site, icls, "outcome recorded for %s is impossible" % (d,))
                else:
                    ref.step(d, setting)
                if list(rec) != [float(x) for x in ref.creg]:
                    raise Violation(sub, "classical-record", site, icls, "after %s: record %s, reference %s" % (d, rec.tolist(), ref.creg))
            else:
                ref.step(d, setting)
        if state.n_qubits != n:
            raise Violation(sub, "n_qubits", site, icls, "%s != %s" % (state.n_qubits, n))
        tab = state.rep_data.tableau
        probs = rp.clifford_tableau_problems(tab)
        if probs:
            raise Violation(sub, "invalid-tableau", site, icls, "; ".join(probs))
        if rp.group_key(rp.stabilizer_paulis(tab), n) != rp.group_key(ref.ps.stab, n):
            raise Violation(sub, "state-mismatch", site, icls, "the tableau does not denote the reference state (%d qubits)" % n)
        n_random += ref.n_random
    if n_random:
        cl.append("random_outcome")
    return Info(nontrivial=("entangling" in cl and "measuring" in cl), classes=cl)


def strat_large(tier):
    return st.fixed_dictionaries({
        "circ": gc.st_circuit(max_q=24, max_len=60 if tier == "quick" else 120, max_c=4, min_q=9),
        "seed": st.integers(0, 2**31 - 1),
    })


def check_small(case):
    return check_random({"circ": case, "seed": 7, "init": None})


WORD = st.lists(
    st.one_of(
        st.tuples(st.sampled_from(["H", "P", "X", "Z", "Y", "Pdag"]), st.integers(0, 7)),
        st.tuples(st.sampled_from(["CNOT", "CZ"]), st.integers(0, 7), st.integers(0, 7)),
    ).map(list),
    min_size=1, max_size=12,
)


def strat_random(tier):
    mq, ml = (5, 30) if tier == "quick" else (7, 60)
    return st.fixed_dictionaries({
        "circ": gc.st_circuit(max_q=mq, max_len=ml, max_c=3),
        "seed": st.integers(0, 2**31 - 1),
        "init": st.one_of(st.none(), st.none(), WORD),
    })


SMALL_ALPHABET = (
    [[g, t, 0] for g in gc.ONE for t in "ep"]
    + [[g, a, 0, b, 0] for g in gc.TWO for a, b in (("e", "p"), ("p", "e"))]
    + [[g, a, 0, b, 0, 0] for g in gc.CC for a, b in (("e", "p"), ("p", "e"))]
    + [["MZ", t, 0, 0] for t in "ep"]
    + [["W", "e", 0, ["H", "P"]], ["W", "p", 0, ["P", "H"]]]
)


def enum_small(tier, seed):
    import random

    L = 2 if tier == "quick" else 3
    cases = []
    for l in range(0, L + 1):
        for prog in itertools.product(SMALL_ALPHABET, repeat=l):
            cases.append({"ne": 1, "np": 1, "nc": 1, "ops": [list(p) for p in prog]})
    exhaustive = True
    if tier == "quick":
        rng = random.Random(seed)
        extra = [
            {"ne": 1, "np": 1, "nc": 1, "ops": [list(rng.choice(SMALL_ALPHABET)) for _ in range(3)]}
            for _ in range(1500)
        ]
        cases += extra
        exhaustive = False
    return cases, exhaustive


SUBS = [
    Sub("random", check_random, strategy=strat_random, n={"quick": 150, "thorough": 2500},
        doc="random circuits x 2 backends x 3 settings x optional initial state vs dense reference"),
    Sub("incremental", check_incremental, strategy=lambda tier: st.fixed_dictionaries({
        "circ": gc.st_circuit(max_q=4, max_len=18, max_c=2), "seed": st.integers(0, 2**31 - 1)}), n={"quick": 40, "thorough": 800},
        doc="one circuit object grown in three stages, compiled after each stage by the same two compiler objects"),
    Sub("parity", check_random, strategy=lambda tier: st_parity(), n={"quick": 40, "thorough": 1000},
        doc="basis states through CNOT networks, then measurements whose fixed outcome is a product of several generators"),
    Sub("shared_compiler", check_shared, strategy=lambda tier: st_shared(), n={"quick": 40, "thorough": 800},
        doc="two or three different circuits with the same number of qubits compiled in a row by the same compiler objects"),
    Sub("large", check_large, strategy=strat_large, n={"quick": 40, "thorough": 1500},
        doc="stabilizer backend on 9..24 registers (register indices with two digits) x 3 settings vs the Pauli-algebra reference"),
    Sub("small", check_small, enum=enum_small,
        doc="every program of length <=2 (quick; +1500 sampled of length 3) / <=3 (thorough) over the 30-letter alphabet on "
            "1 emitter + 1 photon + 1 classical register, all 6 configurations"),
]
