"""C10 - every alternate-target result generates the relabelled target."""
import numpy as np
from hypothesis import strategies as st

from ..core import Info, Violation, guarded
from ..engine import Sub
from ..gen import graphs as gg
from ..ref import graphs as rg
from ..ref import statevec as sv
from . import c02, c16

ID = "C10"
RULE = (
    "connected target graphs n=3..6 (paths for method 'linear', repeater graphs for 'rgs'), arbitrary node labels, given as "
    "networkx graph or as QuantumState in graph / stabilizer / density-matrix representation; settings n_iso 1..4, n_lc 1..4, "
    "lc_method in {None, lc_with_iso, random, random_with_iso, random_with_rep, depth_first, linear, rgs}, orbit depth "
    "{None,1,2}, sort_emit, label_map, seed, and the default construction AlternateTargetSolver(target=G). Every result "
    "circuit is simulated by the reference over all measurement-outcome branches. Non-trivial = an entry whose graph differs "
    "from the relabelled target and whose map is not the identity. Distinct = SHA-1."
)
ASSUMPTIONS = ["dense reference; photon i of a result circuit = vertex i of the relabelled target; the '-1: self' marker of a map is ignored",
               "numpy's global RNG is seeded from the case (the random orbit walks use it)"]
REQUIRED_CLASSES = {"solve": ["entries>=2", "nonidentity_map", "g!=H", "default_setting", "label_map", "target:qs"]}

METHODS = [None, "lc_with_iso", "random", "random_with_iso", "random_with_rep", "depth_first"]


def check(case, sub="solve"):
    import networkx as nx

    from graphiq.solvers.alternate_target_solver import AlternateTargetSolver, AlternateTargetSolverSetting
    from graphiq.state import QuantumState

    n, mask = case["n"], case["mask"]
    labels = case.get("labels") or list(range(n))
    g = rg.to_nx(n, mask, labels)
    cl = gg.classes(n, mask)
    kind = case.get("target", "nx")
    default = case.get("default", False)
    method = case.get("method")
    icls = "default" if default else "method:%s" % method
    if kind == "nx":
        target = g
    else:
        target = guarded(sub, icls, c02.make_target, dict(case, rep={"g": "g", "s": "s", "dm": "dm"}[kind]))
        cl.append("target:qs")
    np.random.seed(case.get("seed", 0))
    if default:
        solver = guarded(sub, icls, AlternateTargetSolver, target=target)
        cl.append("default_setting")
    else:
        setting = guarded(sub, icls, AlternateTargetSolverSetting, n_iso_graphs=case["n_iso"], n_lc_graphs=case["n_lc"],
                          lc_method=method, lc_orbit_depth=case.get("depth"), sort_emit=case.get("sort_emit", True),
                          label_map=case.get("label_map", False), allow_exhaustive=case.get("exh", False))
        solver = guarded(sub, icls, AlternateTargetSolver, target=target, solver_setting=setting, seed=case.get("seed", 0))
        if case.get("label_map"):
            cl.append("label_map")
    import warnings

    with warnings.catch_warnings():
        warnings.simplefilter("ignore")
        results = guarded(sub, icls, solver.solve)
        if case.get("seed", 0) % 4 == 0:
            # the same solver object asked again (same global seed): the entries examined below are those of the second call
            np.random.seed(case.get("seed", 0))
            results = guarded(sub, icls + ":second_solve", solver.solve)
            cl.append("second_solve_on_same_object")
    if not results:
        raise Violation(sub, "no-result", "AlternateTargetSolver", icls, "empty result list")
    T = rg.adj_from_mask(n, mask)  # by position; position i carries label labels[i]
    pos = {lab: i for i, lab in enumerate(labels)}
    seen = []
    nontrivial = False
    for circ, info in results:
        mp = {k: v for k, v in dict(info["map"]).items() if k != -1}
        # dm/stabilizer targets lose the labels: the solver then works with positions 0..n-1
        keys = sorted(mp.keys(), key=str)
        if kind in ("s", "dm") and set(mp.keys()) == set(range(n)):
            u_of = {i: i for i in range(n)}
        elif kind in ("nx", "g") and set(mp.keys()) == set(labels):
            u_of = pos
        else:
            raise Violation(sub, "map-domain", "AlternateTargetSolver", icls, "map keys %s, target nodes %s" % (keys, labels))
        if sorted(mp.values()) != list(range(n)):
            raise Violation(sub, "map-not-bijection", "AlternateTargetSolver", icls, repr(mp))
        H = np.zeros((n, n), dtype=int)
        for a, ia in u_of.items():
            for b, ib in u_of.items():
                H[mp[a], mp[b]] = T[ia, ib]
        hmask = rg.mask_from_adj(H)
        if circ.n_photons != n:
            raise Violation(sub, "photon-count", "AlternateTargetSolver", icls, "%d photons" % circ.n_photons)
        ne = circ.n_emitters
        desc = {"ne": ne, "np": n, "nc": circ.n_classical, "ops": c02.circuit_ops(circ)}
        want = np.kron(rg.graph_state(n, hmask), sv.zero_state(ne))
        for k, v in enumerate(c02.all_branches(desc, desc["ops"])):
            if not sv.same_state(v, want):
                raise Violation(sub, "wrong-state", "AlternateTargetSolver", icls,
                                "entry circuit, branch %d: photons are not in the relabelled target state (overlap %.4f)" % (
                                    k, sv.overlap2(v, want)))
        gm = rg.mask_from_adj(c16._adj(info["g"], n))
        if not c16.in_orbit(n, hmask, gm):
            raise Violation(sub, "g-not-lc-equivalent", "AlternateTargetSolver", icls, "listed graph is not LC-equivalent to the renamed target")
        if gm in seen:
            raise Violation(sub, "duplicate-graph", "AlternateTargetSolver", icls, "two entries list the same graph")
        seen.append(gm)
        ident = all(mp[a] == u_of[a] for a in mp)
        if not ident:
            cl.append("nonidentity_map")
        if gm != hmask:
            cl.append("g!=H")
        if gm != hmask and not ident:
            nontrivial = True
    if len(results) >= 2:
        cl.append("entries>=2")
    # solver.result lists the same entries
    res = solver.result
    try:
        n_res = len(res)
    except Exception:
        n_res = None
    if n_res is not None and n_res != len(results):
        raise Violation(sub, "result-object", "AlternateTargetSolver", icls, "solver.result has %s entries, solve() returned %d" % (n_res, len(results)))
    return Info(nontrivial=nontrivial, classes=sorted(set(cl)))


def strat(tier):
    base = gg.st_graph(3, 6, connected=True, labels=True)
    cfg = st.fixed_dictionaries({
        "n_iso": st.integers(1, 4), "n_lc": st.integers(1, 4), "method": st.sampled_from(METHODS),
        "depth": st.sampled_from([None, 1, 2]), "sort_emit": st.booleans(), "label_map": st.booleans(), "exh": st.booleans(),
        "seed": st.integers(0, 10**6), "target": st.sampled_from(["nx", "nx", "g", "s", "dm"]),
        "default": st.sampled_from([False, False, False, False, True]),
    })

    def fix(t):
        g, c = t
        d = dict(g, **c)
        if d["method"] == "depth_first" and d["n"] > 5:
            d["method"] = None
        return d

    general = st.tuples(base, cfg).map(fix)
    lin = st.tuples(st.integers(3, 6), cfg).map(lambda t: dict(t[1], n=t[0], mask=gg.named(t[0], "path"), method="linear", default=False))
    rgs = st.tuples(st.integers(2, 3), cfg).map(
        lambda t: dict(t[1], **dict(zip(("n", "mask"), c16.repeater_mask(t[0]))), method="rgs", default=False))
    return st.one_of(general, general, general, lin, rgs)


def enum_small(tier, seed):
    rng = __import__("random").Random(seed)
    out = []
    for g in gg.all_graphs(4, connected=True):
        if g["n"] < 3:
            continue
        for method in (METHODS if tier == "thorough" else rng.sample(METHODS, 2)):
            out.append(dict(g, n_iso=rng.randint(1, 4), n_lc=rng.randint(1, 4), method=method, depth=rng.choice([None, 1, 2]),
                            sort_emit=rng.random() < 0.5, label_map=rng.random() < 0.5, exh=rng.random() < 0.5,
                            seed=rng.randrange(10**6), target=rng.choice(["nx", "g", "s", "dm"]), default=False))
        out.append(dict(g, default=True, target="nx", seed=rng.randrange(1000)))
        # every isomorph of a target whose nodes are stored in shuffled order (one of them equals the sorted-order adjacency)
        lab = list(range(g["n"]))
        while lab == sorted(lab):
            rng.shuffle(lab)
        out.append(dict(g, labels=lab, n_iso=12, n_lc=1, method=None, depth=None, sort_emit=False, label_map=rng.random() < 0.5, exh=True,
                        seed=rng.randrange(10**6), target="nx", default=False))
    return out, False


SUBS = [
    Sub("solve", check, strategy=strat, n={"quick": 14, "thorough": 250}, shrink=False, timeout={"quick": 120, "thorough": 300}),
    Sub("small", check, enum=enum_small, timeout={"quick": 120, "thorough": 300},
        doc="every connected labelled graph n=3,4 x sampled (thorough: all) orbit methods + the default construction"),
]
