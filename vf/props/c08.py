"""C08 - conversions among graph, stabilizer and density-matrix forms preserve the state."""
import numpy as np
from hypothesis import strategies as st

from ..core import Info, Violation, guarded
from ..engine import Sub
from ..gen import graphs as gg
from ..gen import stab as gs
from ..ref import graphs as rg
from ..ref import pauli as rp
from ..ref import statevec as sv

ID = "C08"
RULE = (
    "graphs: every labelled graph n<=4 (quick) / 5 (thorough) with permuted / non-contiguous labels + random n<=7 (density "
    "paths) and n<=30 (stabilizer-only paths); |G> presented in random generating sets for stabilizer_to_graph; general "
    "stabilizer states (all states n<=2(3) x generating sets, random n<=8) for state_to_graph; QuantumState conversion over "
    "all 9 ordered pairs of representations and all 2-step chains. Non-trivial = non-empty graph n>=3 in a non-graph-form "
    "generating set, or a chain through two different representations. Distinct = SHA-1."
)
ASSUMPTIONS = ["|G> from the definition (vf/ref/statevec.graph_state); qubit i = i-th node in insertion order",
               "graph representations are compared by adjacency in qubit order"]
REQUIRED_CLASSES = {"graphs": ["labels", "disconnected"], "state_to_graph": ["has_Y", "negative_sign", "non_graph_form"],
                    "chains": ["g->s", "g->dm", "s->g", "s->dm", "dm->g", "dm->s"]}

GATE = {"I": "I", "H": "H", "P": "P", "P_dag": "Pdag", "X": "X", "Y": "Y", "Z": "Z"}


def adj_of(graph, n):
    """adjacency in insertion order of a networkx graph / numpy array / graphiq Graph"""
    import networkx as nx

    if hasattr(graph, "data") and not isinstance(graph, np.ndarray):
        graph = graph.data
    if isinstance(graph, np.ndarray):
        return (np.asarray(graph) != 0).astype(int)
    return (nx.to_numpy_array(graph) != 0).astype(int)


def check_graph(case, sub="graphs"):
    import graphiq.backends.state_rep_conversion as rc
    from graphiq.backends.stabilizer.functions.rep_conversion import (
        get_clifford_tableau_from_graph, get_stabilizer_tableau_from_graph)

    n, mask = case["n"], case["mask"]
    g = gg.to_nx(case)
    adj = rg.adj_from_mask(n, mask)
    cl = gg.classes(n, mask)
    if case.get("labels"):
        cl.append("labels")
    big = n > 7
    v = None if big else rg.graph_state(n, mask)  # the dense reference only where it is used (n <= 7)
    icls = "graph"
    # graph -> stabilizer forms
    tab = guarded(sub, icls, get_stabilizer_tableau_from_graph, g)
    ctab = guarded(sub, icls, get_clifford_tableau_from_graph, g)
    res = guarded(sub, icls, rc.graph_to_stabilizer, g)
    res2 = guarded(sub, icls, rc.graph_to_stabilizer, adj.astype(float))
    want = rp.group_key(rg.graph_stabilizers(n, mask), n)
    for name, t in (("get_stabilizer_tableau_from_graph", tab), ("get_clifford_tableau_from_graph", ctab),
                    ("graph_to_stabilizer", res[0][1]), ("graph_to_stabilizer(array)", res2[0][1])):
        ps = rp.stabilizer_paulis(t)
        if len(ps) != n or not all(rp.is_hermitian(p) for p in ps) or rp.group_key(ps, n) != want:
            raise Violation(sub, "state-mismatch", name, icls, "does not denote |G>")
    if abs(res[0][0] - 1.0) > 1e-12:
        raise Violation(sub, "weight", "graph_to_stabilizer", icls, repr(res[0][0]))
    probs = rp.clifford_tableau_problems(ctab)
    if probs:
        raise Violation(sub, "invalid-tableau", "get_clifford_tableau_from_graph", icls, "; ".join(probs))
    # stabilizer (any generating set) -> graph
    S, D, _ = gs.present({"n": n, "word": [["H", q] for q in range(n)] + [["CZ", a, b] for a, b in rg.edges_from_mask(n, mask)],
                          "rowops": case.get("rowops", [])}, dense=False)
    st_tab = gs.stabilizer_tableau(S, n)
    if "non_graph_form" in gs.classes(S, n):
        cl.append("non_graph_form")
    out = guarded(sub, icls, rc.stabilizer_to_graph, st_tab)
    if len(out) != 1 or not np.array_equal(adj_of(out[0][1], n), adj):
        raise Violation(sub, "graph-mismatch", "stabilizer_to_graph", icls, "recovered another graph")
    if not big:
        rho = guarded(sub, icls, rc.graph_to_density, g)
        if np.linalg.norm(np.asarray(rho) - sv.dm(v)) > 1e-8:
            raise Violation(sub, "state-mismatch", "graph_to_density", icls, "not |G><G|")
        rho2 = guarded(sub, icls, rc.graph_to_density, adj.astype(float))
        if np.linalg.norm(np.asarray(rho2) - sv.dm(v)) > 1e-8:
            raise Violation(sub, "state-mismatch", "graph_to_density(array)", icls, "not |G><G|")
        back = guarded(sub, icls, rc.density_to_graph, sv.dm(v))
        if not np.array_equal(adj_of(back, n), adj):
            raise Violation(sub, "graph-mismatch", "density_to_graph", icls, "recovered another graph")
        # the list form [(1.0, tableau)] that graph_to_stabilizer itself returns
        rho4 = guarded(sub, icls + ":list", rc.stabilizer_to_density, res)
        if rho4 is None or np.linalg.norm(np.asarray(rho4) - sv.dm(v)) > 1e-8:
            raise Violation(sub, "state-mismatch", "stabilizer_to_density", icls + ":list", "list form [(1.0, tableau)]: not |G><G|")
        out2 = guarded(sub, icls + ":list", rc.stabilizer_to_graph, res)
        if len(out2) != 1 or not np.array_equal(adj_of(out2[0][1], n), adj):
            raise Violation(sub, "graph-mismatch", "stabilizer_to_graph", icls + ":list", "recovered another graph")
        st2 = guarded(sub, icls, rc.density_to_stabilizer, sv.dm(v))
        if rp.group_key(rp.stabilizer_paulis(st2[0][1]), n) != want:
            raise Violation(sub, "state-mismatch", "density_to_stabilizer", icls, "does not denote |G>")
        # the same graph object, edited in place with node and edge counts unchanged (one edge moved), converted again
        edges = rg.edges_from_mask(n, mask)
        non_edges = [pq for pq in rg.pairs(n) if pq not in edges]
        if edges and non_edges and n <= 5:
            nodes = list(g.nodes)
            k = case.get("move", 0)
            (a, b), (c, d) = edges[k % len(edges)], non_edges[k % len(non_edges)]
            g.remove_edge(nodes[a], nodes[b])
            g.add_edge(nodes[c], nodes[d])
            mask2 = mask ^ (1 << rg.pairs(n).index((a, b))) ^ (1 << rg.pairs(n).index((c, d)))
            v2 = rg.graph_state(n, mask2)
            rho5 = guarded(sub, icls + ":edited_in_place", rc.graph_to_density, g)
            if np.linalg.norm(np.asarray(rho5) - sv.dm(v2)) > 1e-8:
                raise Violation(sub, "state-mismatch", "graph_to_density", icls + ":edited_in_place",
                                "after moving an edge of the same graph object the result is not |G><G| of the graph as it is now")
            res5 = guarded(sub, icls + ":edited_in_place", rc.graph_to_stabilizer, g)
            if rp.group_key(rp.stabilizer_paulis(res5[0][1]), n) != rp.group_key(rg.graph_stabilizers(n, mask2), n):
                raise Violation(sub, "state-mismatch", "graph_to_stabilizer", icls + ":edited_in_place", "after moving an edge: does not denote |G>")
            cl.append("converted_again_after_edit")
        # last, because signed presentations hit a known finding here
        sgn = "graph:negative_sign" if np.any(st_tab.phase) else "graph:positive_signs"
        rho3 = guarded(sub, sgn, rc.stabilizer_to_density, st_tab)
        if rho3 is None or np.linalg.norm(np.asarray(rho3) - sv.dm(v)) > 1e-8:
            raise Violation(sub, "state-mismatch", "stabilizer_to_density", sgn, "not |G><G|")
    return Info(nontrivial=(n >= 3 and mask != 0 and "non_graph_form" in cl), classes=cl)


def check_state_to_graph(case, sub="state_to_graph"):
    import networkx as nx

    import graphiq.backends.state_rep_conversion as rc

    n = case["n"]
    dense = n <= 8
    S, D, v = gs.present(case, dense=dense)
    cl = gs.classes(S, n)
    if not dense:
        cl.append("n>8")
    xs = [p[0] for p in S]
    icls = "x_full_rank" if rp.gf2_rank(xs) == n else "x_rank_deficient"
    cl.append(icls)
    state = gs.clifford_tableau(S, D, n) if case.get("clifford") else gs.stabilizer_tableau(S, n)
    graph, tab, gates = guarded(sub, icls, rc.state_to_graph, state)
    a = adj_of(graph, n)
    if a.shape != (n, n) or not np.array_equal(a, a.T) or np.any(np.diag(a)):
        raise Violation(sub, "not-a-graph", "state_to_graph", icls, "returned adjacency is not a simple graph")
    for g in gates:
        if g[0] not in GATE:
            raise Violation(sub, "unknown-gate", "state_to_graph", icls, repr(g))
    if dense:
        w = v
        for g in gates:
            w = sv.apply1(w, n, int(g[1]), sv.GATES[GATE[g[0]]])
        ok = sv.same_state(w, rg.graph_state(n, rg.mask_from_adj(a)))
    else:
        ps = rp.PauliSim(n)
        ps.stab = list(S)
        for g in gates:
            ps.gate1(GATE[g[0]], int(g[1]))
        ok = rp.group_key(ps.stab, n) == rp.group_key(rg.graph_stabilizers(n, rg.mask_from_adj(a)), n)
    if not ok:
        raise Violation(sub, "gates-wrong", "state_to_graph", icls,
                        "gates %s do not map the state onto the returned graph's state" % (gates,))
    if rp.group_key(rp.stabilizer_paulis(tab), n) != rp.group_key(S, n):
        raise Violation(sub, "tableau-changed", "state_to_graph", icls, "returned tableau is not the input state")
    return Info(nontrivial=("non_graph_form" in cl and n >= 2), classes=cl)


REPS = ["g", "s", "dm"]


def _denotes(qs, rep, n, mask, v, adj):
    if qs.rep_type != rep:
        return "rep_type is %r, requested %r" % (qs.rep_type, rep)
    if qs.n_qubits != n:
        return "n_qubits %s != %s" % (qs.n_qubits, n)
    d = qs.rep_data
    kind = type(d).__name__
    if rep == "g":
        if kind != "Graph":
            return "representation object is a %s, not a Graph" % kind
        if not np.array_equal(adj_of(d, n), adj):
            return "graph representation has another adjacency"
    elif rep == "s":
        if kind != "Stabilizer":
            return "representation object is a %s, not a Stabilizer" % kind
        if not rp.denotes(d.tableau, v, n):
            return "stabilizer representation does not denote |G>"
    else:
        if kind != "DensityMatrix":
            return "representation object is a %s, not a DensityMatrix" % kind
        m = np.asarray(d.data)
        if m.shape != (2**n, 2**n) or np.linalg.norm(m - sv.dm(v)) > 1e-8:
            return "density matrix is not |G><G|"
    return None


def _cz_matrix(n, a, b):
    d = np.ones(2 ** n, dtype=complex)
    for i in range(2 ** n):
        if (i >> (n - 1 - a)) & 1 and (i >> (n - 1 - b)) & 1:
            d[i] = -1
    return np.diag(d)


def check_chain(case, sub="chains"):
    from graphiq.backends.stabilizer.functions.rep_conversion import get_clifford_tableau_from_graph
    from graphiq.state import QuantumState

    n, mask = case["n"], case["mask"]
    g = gg.to_nx(case)
    v = rg.graph_state(n, mask)
    adj = rg.adj_from_mask(n, mask)
    chain = case["chain"]
    start = chain[0]
    if start == "g":
        qs = guarded(sub, "init:g", QuantumState, g, rep_type="g")
    elif start == "s":
        qs = guarded(sub, "init:s", QuantumState, get_clifford_tableau_from_graph(g), rep_type="s")
    else:
        qs = guarded(sub, "init:dm", QuantumState, sv.dm(v), rep_type="dm")
    cl = gg.classes(n, mask)
    cur = start
    bad = _denotes(qs, cur, n, mask, v, adj)
    if bad:
        raise Violation(sub, "initial", "QuantumState", "init:" + cur, bad)
    for k_, nxt in enumerate(chain[1:]):
        step = "%s->%s" % (cur, nxt)
        if k_ >= 1 and n >= 2 and cur in ("s", "dm") and case.get("edit", True):
            # the state is changed in place through the held representation (one CZ = one edge toggled) between two conversions
            a_, b_ = 0, 1 + (mask % (n - 1))
            if cur == "s":
                guarded(sub, step + ":edited", qs.rep_data.apply_cz, a_, b_)
            else:
                guarded(sub, step + ":edited", qs.rep_data.apply_unitary, sv.op2(n, a_, b_, "CZ") if hasattr(sv, "op2") else _cz_matrix(n, a_, b_))
            mask = mask ^ (1 << rg.pairs(n).index((a_, b_)))
            v = rg.graph_state(n, mask)
            adj = rg.adj_from_mask(n, mask)
            cl.append("edited_between_conversions")
            step += ":edited"
        guarded(sub, step, qs.convert_representation, nxt)
        bad = _denotes(qs, nxt, n, mask, v, adj)
        if bad:
            raise Violation(sub, "state-mismatch", "convert_representation", step, bad)
        cl.append(step)
        cur = nxt
    return Info(nontrivial=(len(set(chain)) >= 2 and mask != 0), classes=cl)


def enum_graphs(tier, seed):
    rng = __import__("random").Random(seed)
    out = []
    for g in gg.all_graphs(4 if tier == "quick" else 5):
        n = g["n"]
        lab = list(range(n))
        r = rng.random()
        if r < 0.33:
            rng.shuffle(lab)
        elif r < 0.5:
            lab = [3 * i + 1 for i in lab]
            rng.shuffle(lab)
        out.append(dict(g, labels=lab, rowops=[[rng.choice(["mul", "swap"]), rng.randrange(n), rng.randrange(n)] for _ in range(rng.randint(0, 4))]))
    return out, True


def strat_graphs(tier):
    small = gg.st_graph(5, 7, labels=True)
    big = gg.st_graph(8, 20 if tier == "quick" else 30, labels=True)
    return st.tuples(st.one_of(small, small, big), gs.st_rowops(29, 10)).map(lambda t: dict(t[0], rowops=t[1]))


def strat_s2g(tier):
    base = st.one_of(gs.st_state(1, 6 if tier == "quick" else 8, max_word=25, max_rowops=10), gs.st_sparse_state(3, 8),
                     gs.st_state(9, 16, max_word=60, max_rowops=12))
    return st.tuples(base, st.booleans()).map(lambda t: dict(t[0], clifford=t[1]))


def enum_s2g(tier, seed):
    rng = __import__("random").Random(seed)
    cases = []
    for n in (1, 2):
        for w in gs.all_states(n):
            for M in gs.all_invertible(n):
                cases.append({"n": n, "word": w, "M": M, "clifford": rng.random() < 0.5})
    ws, ms = gs.all_states(3), gs.all_invertible(3)
    exhaustive = tier == "thorough"
    for w in ws:
        for M in (ms if exhaustive else rng.sample(ms, 4)):
            cases.append({"n": 3, "word": w, "M": M, "clifford": rng.random() < 0.5})
    return cases, exhaustive


def enum_chains(tier, seed):
    rng = __import__("random").Random(seed)
    chains = [[a, b] for a in REPS for b in REPS] + [[a, b, c] for a in REPS for b in REPS for c in REPS if a != b]
    out = []
    graphs = gg.all_graphs(3) + [g for g in gg.all_graphs(4 if tier == "quick" else 5) if g["n"] >= 4 and rng.random() < (0.3 if tier == "quick" else 0.1)]
    for g in graphs:
        n = g["n"]
        for ch in (chains if n <= 3 else rng.sample(chains, 6)):
            lab = list(range(n))
            if rng.random() < 0.4:
                rng.shuffle(lab)
            out.append(dict(g, labels=lab, chain=ch))
    return out, False


SUBS = [
    Sub("graphs", check_graph, enum=enum_graphs),
    Sub("graphs_random", lambda c: check_graph(c, "graphs"), strategy=strat_graphs, n={"quick": 40, "thorough": 600}),
    Sub("state_to_graph", check_state_to_graph, strategy=strat_s2g, n={"quick": 250, "thorough": 4000}),
    Sub("state_to_graph_complete", lambda c: check_state_to_graph(c, "state_to_graph"), enum=enum_s2g),
    Sub("chains", check_chain, enum=enum_chains,
        doc="QuantumState.convert_representation over all 9 ordered pairs and all 2-step chains from every graph n<=3 and sampled n=4(5)"),
]
