"""CLI:  python -m vf.run <ID> --tier quick|thorough      explore
          python -m vf.run <ID> --replay <file>             plain regression check, no Hypothesis
          python -m vf.run setup | selftest
Exit 0: property held on everything explored (known findings listed as KNOWN-FINDING lines)
Exit 1: VIOLATION property=<id> replay=<path>
Exit 2: harness error (never dressed up as a violation)
"""
import argparse
import importlib
import json
import os
import signal
import subprocess
import sys
import time
import traceback

from .core import HOME, REPO, CaseTimeout, Skip, Violation, canon, eprint, jsonable

LEVEL = "exploration"


def load_findings():
    p = os.path.join(HOME, "known_findings.json")
    if not os.path.exists(p):
        return []
    with open(p) as f:
        return json.load(f)["findings"]


def load_module(pid):
    return importlib.import_module("vf.props.%s" % pid.lower())


def sub_by_name(mod, name):
    for s in mod.SUBS:
        if s.name == name:
            return s
    raise KeyError(name)


def replay_case(mod, rec, timeout=600):
    """returns None (held), or the Violation"""
    sub = sub_by_name(mod, rec.get("run_sub", rec["subcheck"]))
    signal.signal(signal.SIGALRM, lambda *a: (_ for _ in ()).throw(CaseTimeout("watchdog")))
    signal.setitimer(signal.ITIMER_REAL, timeout)
    try:
        sub.check(rec["case"])
    except Violation as v:
        return v
    except Skip:
        return None
    finally:
        signal.setitimer(signal.ITIMER_REAL, 0)
    return None


def quiet_stdout():
    """graphiq prints in a few branches; keep protocol lines clean"""
    sys.stdout.flush()
    saved = os.dup(1)
    devnull = os.open(os.devnull, os.O_WRONLY)
    os.dup2(devnull, 1)
    return saved


def restore_stdout(saved):
    sys.stdout.flush()
    os.dup2(saved, 1)
    os.close(saved)


def write_replay(pid, key, detail, desc, run_sub):
    import hashlib

    d = os.path.join(HOME, "replays", pid)
    os.makedirs(d, exist_ok=True)
    h = hashlib.sha1(("|".join(key)).encode()).hexdigest()[:12]
    path = os.path.join(d, "%s.json" % h)
    with open(path, "w") as f:
        json.dump(
            {"property": pid, "run_sub": run_sub, "subcheck": key[0], "kind": key[1], "site": key[2], "input_class": key[3],
             "detail": detail, "case": desc},
            f, indent=1, sort_keys=True,
        )
    return os.path.relpath(path, HOME)


def validate_evidence(ev):
    try:
        import jsonschema

        with open("/root/.vp/EVIDENCE.schema.json") as f:
            schema = json.load(f)
        jsonschema.validate(ev, schema)
        return None
    except ImportError:
        pass
    except FileNotFoundError:
        pass
    except Exception as e:
        return str(e)[:500]
    cov = ev.get("coverage", {})
    for k in ("evaluations", "distinct_nontrivial", "rule", "samples"):
        if k not in cov:
            return "coverage.%s missing" % k
    if cov["evaluations"] < 1 or cov["distinct_nontrivial"] < 2 or not cov["samples"]:
        return "coverage counts too small"
    return None


def cmd_replay(pid, path):
    mod = load_module(pid)
    with open(path) as f:
        rec = json.load(f)
    saved = quiet_stdout()
    try:
        v = replay_case(mod, rec)
    finally:
        restore_stdout(saved)
    if v is None:
        print("OK property=%s replay=%s held" % (pid, path))
        return 0
    print("VIOLATION property=%s replay=%s" % (pid, path))
    print("  bucket=%s" % "/".join(v.key))
    print("  detail=%s" % v.detail)
    return 1


def cmd_check(pid, tier, only=None):
    from . import engine

    t0 = time.time()
    seed = int(os.environ.get("VERIF_SEED", "1") or 1)
    mod = load_module(pid)
    if hasattr(mod, "selftest"):
        saved = quiet_stdout()
        try:
            mod.selftest()
        finally:
            restore_stdout(saved)
    findings = [f for f in load_findings() if f["property"] == pid]
    known, lines, violations = set(), [], []
    saved = quiet_stdout()
    try:
        for f in findings:
            key = (f["subcheck"], f["kind"], f["site"], f["input_class"])
            rec = None
            if f.get("replay"):
                with open(os.path.join(HOME, f["replay"])) as fh:
                    rec = json.load(fh)
            if f["status"] == "known":
                known.add(key)
                v = replay_case(mod, rec) if rec else None
                if v is not None and v.key == key:
                    lines.append("KNOWN-FINDING: property=%s %s [%s]" % (pid, f["what"], "/".join(key)))
                elif v is not None:
                    violations.append((v.key, v.detail, rec["case"], rec.get("run_sub", rec["subcheck"])))
                else:
                    eprint("note: known finding no longer reproduces: %s" % f["what"])
            elif f["status"] == "fixed" and rec is not None:
                v = replay_case(mod, rec)
                if v is not None:
                    violations.append((v.key, "regression of fixed finding (%s): %s" % (f.get("commit"), v.detail),
                                       rec["case"], rec.get("run_sub", rec["subcheck"])))
        per_sub = engine.explore(mod, tier, seed, known, only=only)
    finally:
        restore_stdout(saved)

    total = engine.Stats()
    sub_ev = {}
    errors = []
    for s in mod.SUBS:
        st = per_sub[s.name]
        total.merge(st)
        errors += ["%s: %s" % (s.name, e) for e in st.errors]
        sub_ev[s.name] = {
            "evaluations": st.evaluations,
            "held": st.ok,
            "distinct_nontrivial": len(st.nontrivial),
            "exhaustive": st.exhaustive,
            "classes": dict(st.classes.most_common()),
            "excluded_known": sum(c for k, c in st.excluded.items() if k in known),
            "inconclusive_timeouts": st.timeouts,
            "rejected_by_precondition": st.skipped,
            "doc": s.doc,
        }
    # merge found by bucket, keep the smallest descriptor
    best = {}
    for key, detail, desc, rsub in violations + total.found:
        if key in known:
            continue
        cur = best.get(key)
        if cur is None or len(canon(desc)) < len(canon(cur[2])):
            best[key] = (key, detail, desc, rsub)
    out_v = []
    for key in sorted(best):
        _, detail, desc, rsub = best[key]
        path = write_replay(pid, key, detail, desc, rsub)
        out_v.append((key, detail, path))

    # generator health: required classes must be populated
    health = []
    req = getattr(mod, "REQUIRED_CLASSES", {})
    for sname, names in req.items():
        st = per_sub.get(sname)
        if st is None or st.ok < 50 or (only and sname not in only):
            continue
        for nme in names:
            if st.classes.get(nme, 0) == 0:
                health.append("sub-check %s never produced class %s in %d cases" % (sname, nme, st.ok))

    samples = (total.nt_samples + total.samples)[:4]
    ev = {
        "property_id": pid,
        "tier": tier,
        "seed": seed,
        "level": LEVEL,
        "coverage": {
            "evaluations": total.evaluations,
            "distinct_nontrivial": len(total.nontrivial),
            "rule": mod.RULE,
            "samples": samples if samples else [{"note": "no case completed"}],
            "exhaustive": all(v["exhaustive"] for v in sub_ev.values() if v["exhaustive"] is not None)
            and any(v["exhaustive"] for v in sub_ev.values()) and all(v["exhaustive"] is not None for v in sub_ev.values()),
            "subchecks": sub_ev,
            "class_histogram": dict(total.classes.most_common()),
            "excluded_known": {"/".join(k): c for k, c in total.excluded.items() if k in known},
            "inconclusive_timeouts": total.timeouts,
            "rejected_by_precondition": total.skipped,
            "known_findings_reported": lines,
            "violations": [{"bucket": "/".join(k), "detail": d, "replay": p} for k, d, p in out_v],
            "repo": REPO,
        },
        "assumptions": getattr(mod, "ASSUMPTIONS", []),
        "wall_s": round(time.time() - t0, 2),
        "violations": len(out_v),
    }
    os.makedirs(os.path.join(HOME, "evidence"), exist_ok=True)
    evpath = os.path.join(HOME, "evidence", "%s.json" % pid)
    if not only:
        with open(evpath, "w") as f:
            json.dump(ev, f, indent=1, sort_keys=True, default=str)
    for ln in lines:
        print(ln)
    for key, detail, path in out_v:
        print("VIOLATION property=%s replay=%s" % (pid, path))
        print("  bucket=%s" % "/".join(key))
        print("  detail=%s" % detail.replace("\n", " ")[:600])
    print(
        "SUMMARY property=%s tier=%s seed=%d evaluations=%d distinct_nontrivial=%d excluded_known=%d "
        "timeouts=%d skipped=%d violations=%d wall=%.1fs"
        % (pid, tier, seed, total.evaluations, len(total.nontrivial),
           sum(c for k, c in total.excluded.items() if k in known), total.timeouts, total.skipped, len(out_v),
           time.time() - t0)
    )
    if out_v:
        return 1
    if errors:
        for e in errors[:5]:
            eprint("HARNESS ERROR: " + e)
        return 2
    if health:
        for h in health:
            eprint("HARNESS ERROR (generator): " + h)
        return 2
    if not only:
        bad = validate_evidence(ev)
        if bad:
            eprint("HARNESS ERROR: evidence does not validate: " + bad)
            return 2
    return 0


def cmd_setup():
    deps = os.path.join(HOME, ".deps")
    os.makedirs(deps, exist_ok=True)
    want = []
    for m in ("hypothesis", "jsonschema"):
        try:
            importlib.import_module(m)
        except ImportError:
            want.append(m)
    try:
        importlib.import_module("atheris")
    except ImportError:
        want.append("atheris")
    rc = 0
    for m in want:
        r = subprocess.run(
            [sys.executable, "-m", "pip", "install", "--quiet", "--no-index", "--find-links",
             "/opt/veriftools/wheels", "--target", deps, m],
            capture_output=True, text=True,
        )
        if r.returncode != 0:
            eprint("setup: could not install %s offline: %s" % (m, r.stderr[-400:]))
            if m != "atheris":
                rc = 2
    for m in ("numpy", "scipy", "networkx", "hypothesis", "graphiq"):
        try:
            importlib.import_module(m)
        except Exception as e:
            eprint("setup: cannot import %s: %s" % (m, e))
            rc = 2
    if rc == 0:
        rc = cmd_selftest()
    print("setup %s" % ("ok" if rc == 0 else "FAILED"))
    return rc


def cmd_selftest():
    from .ref import selftest

    try:
        n = selftest.run(full=True)
    except Exception:
        traceback.print_exc()
        return 2
    print("selftest ok (%d checks)" % n)
    return 0


def main(argv=None):
    ap = argparse.ArgumentParser()
    ap.add_argument("what")
    ap.add_argument("--tier", default=os.environ.get("VERIF_TIER", "quick"), choices=["quick", "thorough"])
    ap.add_argument("--replay")
    ap.add_argument("--only", action="append")
    a = ap.parse_args(argv)
    try:
        if a.what == "setup":
            return cmd_setup()
        if a.what == "selftest":
            return cmd_selftest()
        pid = a.what.upper()
        if a.replay:
            return cmd_replay(pid, a.replay)
        return cmd_check(pid, a.tier, only=a.only)
    except SystemExit:
        raise
    except BaseException:
        traceback.print_exc()
        eprint("HARNESS ERROR")
        return 2


if __name__ == "__main__":
    sys.exit(main())
