"""Brute-force graph ground truths for small n.  Imports nothing from graphiq.

A labelled graph on n vertices (positions 0..n-1) is an int bitmask over the pairs (i<j) in lexicographic order.
"""
import itertools

import numpy as np

from . import pauli as rp
from . import statevec as sv

_PAIRS = {}


def pairs(n):
    if n not in _PAIRS:
        _PAIRS[n] = [(i, j) for i in range(n) for j in range(i + 1, n)]
    return _PAIRS[n]


def n_masks(n):
    return 1 << (n * (n - 1) // 2)


def adj_from_mask(n, mask):
    a = np.zeros((n, n), dtype=int)
    for k, (i, j) in enumerate(pairs(n)):
        if (mask >> k) & 1:
            a[i, j] = a[j, i] = 1
    return a


def mask_from_adj(a):
    a = np.asarray(a)
    n = a.shape[0]
    m = 0
    for k, (i, j) in enumerate(pairs(n)):
        if a[i, j]:
            m |= 1 << k
    return m


def edges_from_mask(n, mask):
    return [p for k, p in enumerate(pairs(n)) if (mask >> k) & 1]


def nbr_sets(n, mask):
    nb = [0] * n
    for k, (i, j) in enumerate(pairs(n)):
        if (mask >> k) & 1:
            nb[i] |= 1 << j
            nb[j] |= 1 << i
    return nb


def local_complement(n, mask, v):
    """toggle every edge among the neighbours of v"""
    nb = nbr_sets(n, mask)[v]
    for k, (i, j) in enumerate(pairs(n)):
        if (nb >> i) & 1 and (nb >> j) & 1:
            mask ^= 1 << k
    return mask


def lc_orbit(n, mask):
    seen = {mask}
    todo = [mask]
    while todo:
        m = todo.pop()
        for v in range(n):
            m2 = local_complement(n, m, v)
            if m2 not in seen:
                seen.add(m2)
                todo.append(m2)
    return seen


_ORBIT_ID = {}


def orbit_table(n):
    """orbit representative (min mask) for every labelled graph on n vertices"""
    if n not in _ORBIT_ID:
        rep = {}
        for m in range(n_masks(n)):
            if m in rep:
                continue
            orb = lc_orbit(n, m)
            r = min(orb)
            for x in orb:
                rep[x] = r
        _ORBIT_ID[n] = rep
    return _ORBIT_ID[n]


def lc_equivalent(n, m1, m2):
    if n <= 6:
        t = orbit_table(n)
        return t[m1] == t[m2]
    return m2 in lc_orbit(n, m1)


def relabel(n, mask, perm):
    """vertex u -> perm[u]"""
    out = 0
    for k, (i, j) in enumerate(pairs(n)):
        if (mask >> k) & 1:
            a, b = perm[i], perm[j]
            if a > b:
                a, b = b, a
            out |= 1 << pairs(n).index((a, b))
    return out


def canonical_iso(n, mask):
    """brute-force canonical form (min over all relabellings), n <= 7"""
    best = None
    for perm in itertools.permutations(range(n)):
        m = relabel(n, mask, perm)
        if best is None or m < best:
            best = m
    return best


def isomorphic(n, m1, m2):
    if bin(m1).count("1") != bin(m2).count("1"):
        return False
    nb1 = sorted(bin(x).count("1") for x in nbr_sets(n, m1))
    nb2 = sorted(bin(x).count("1") for x in nbr_sets(n, m2))
    if nb1 != nb2:
        return False
    for perm in itertools.permutations(range(n)):
        if relabel(n, m1, perm) == m2:
            return True
    return False


def connected(n, mask):
    if n == 0:
        return True
    nb = nbr_sets(n, mask)
    seen = 1
    todo = [0]
    while todo:
        v = todo.pop()
        new = nb[v] & ~seen
        seen |= new
        for u in range(n):
            if (new >> u) & 1:
                todo.append(u)
    return seen == (1 << n) - 1


def has_isolated(n, mask):
    return any(x == 0 for x in nbr_sets(n, mask))


def cut_rank(n, mask, k):
    """GF(2) rank of adj[0..k, k+1..]"""
    a = adj_from_mask(n, mask)
    blk = a[: k + 1, k + 1:]
    if blk.size == 0:
        return 0
    return rp.gf2_rank_matrix(blk)


def cut_ranks(n, mask):
    return [cut_rank(n, mask, k) for k in range(n)]


def graph_state(n, mask):
    return sv.graph_state(n, edges_from_mask(n, mask))


def graph_stabilizers(n, mask):
    """K_i = X_i prod_{j~i} Z_j as reference Paulis"""
    nb = nbr_sets(n, mask)
    return [(1 << i, nb[i], 0) for i in range(n)]


def to_nx(n, mask, labels=None, order=None):
    """networkx graph with given node labels, nodes inserted in `order` (a permutation of positions) - but the
    *position* of a vertex in graphiq is its index in the insertion order, so this returns the graph whose i-th
    inserted node is position i."""
    import networkx as nx

    labels = list(range(n)) if labels is None else labels
    g = nx.Graph()
    for i in range(n):
        g.add_node(labels[i])
    for i, j in edges_from_mask(n, mask):
        g.add_edge(labels[i], labels[j])
    return g


def selftest(full=False):
    # number of LC orbits of labelled graphs
    want = {3: 5, 4: 18}
    if full:
        want[5] = 93
    for n, w in want.items():
        t = orbit_table(n)
        assert len(set(t.values())) == w, (n, len(set(t.values())))
    # graph state is stabilised by K_i
    for n in (1, 2, 3, 4):
        for m in range(0, n_masks(n), max(1, n_masks(n) // 7)):
            v = graph_state(n, m)
            assert rp.stabilises(graph_stabilizers(n, m), v, n)
            # cut rank = Schmidt rank
            for k in range(n - 1):
                assert cut_rank(n, m, k) == sv.schmidt_rank_log2(v, n, k)
    # local complementation is an involution
    for m in range(n_masks(4)):
        for v in range(4):
            assert local_complement(4, local_complement(4, m, v), v) == m
