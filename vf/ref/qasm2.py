"""A small openQASM 2.0 interpreter for the subset graphiq emits, read with STANDARD semantics.

Supported: OPENQASM 2.0; qreg/creg; gate name(params) args { body } (bodies executed top to bottom, user gates may use
earlier user gates, built-ins U(theta,phi,lambda) and CX, arithmetic on pi); barrier; measure q[i] -> c[j];
reset q[i]; if (c==k) <qop>.  Imports nothing from graphiq.
"""
import math
import re

import numpy as np

from . import statevec as sv


class QasmError(Exception):
    pass


def _strip_comments(text):
    return re.sub(r"//[^\n]*", "", text)


def _eval_expr(expr, env):
    expr = expr.strip()
    if not re.fullmatch(r"[0-9a-zA-Z_+\-*/(). ]*", expr):
        raise QasmError("bad expression %r" % expr)
    names = dict(env)
    names["pi"] = math.pi
    try:
        return float(eval(expr, {"__builtins__": {}}, names))
    except Exception as e:
        raise QasmError("cannot evaluate %r: %s" % (expr, e))


def u_matrix(theta, phi, lam):
    c, s = math.cos(theta / 2), math.sin(theta / 2)
    return np.array([[c, -np.exp(1j * lam) * s], [np.exp(1j * phi) * s, np.exp(1j * (phi + lam)) * c]], dtype=complex)


def _split_args(s):
    """split on commas at depth 0"""
    out, depth, cur = [], 0, ""
    for ch in s:
        if ch == "(":
            depth += 1
        elif ch == ")":
            depth -= 1
        if ch == "," and depth == 0:
            out.append(cur.strip())
            cur = ""
        else:
            cur += ch
    if cur.strip():
        out.append(cur.strip())
    return out


_STMT = re.compile(r"^\s*([A-Za-z_][A-Za-z0-9_]*)\s*(\((.*)\))?\s*(.*)$", re.S)


class Program:
    def __init__(self, text):
        text = _strip_comments(text)
        self.qregs = []  # (name, size) in declaration order
        self.cregs = []
        self.gates = {}  # name -> (params, qargs, body statements)
        self.ops = []  # flat list of top-level operations
        self._parse(text)

    # ------------------------------------------------------------------ parsing
    def _parse(self, text):
        m = re.match(r"\s*OPENQASM\s+2\.0\s*;", text)
        if not m:
            raise QasmError("missing OPENQASM 2.0 header")
        rest = text[m.end():]
        # gate definitions
        pos = 0
        out = ""
        gate_re = re.compile(r"\bgate\s+([A-Za-z_][A-Za-z0-9_]*)\s*(\(([^)]*)\))?\s*([^{]*)\{([^}]*)\}", re.S)
        for gm in gate_re.finditer(rest):
            out += rest[pos:gm.start()]
            pos = gm.end()
            name = gm.group(1)
            params = [p.strip() for p in (gm.group(3) or "").split(",") if p.strip()]
            qargs = [a.strip() for a in gm.group(4).split(",") if a.strip()]
            body = [b.strip() for b in gm.group(5).split(";") if b.strip()]
            self.gates[name] = (params, qargs, body)
        out += rest[pos:]
        for stmt in out.split(";"):
            stmt = stmt.strip()
            if not stmt:
                continue
            if stmt.startswith("import"):
                continue
            m = re.fullmatch(r"qreg\s+([A-Za-z_][A-Za-z0-9_]*)\s*\[\s*(\d+)\s*\]", stmt)
            if m:
                self.qregs.append((m.group(1), int(m.group(2))))
                continue
            m = re.fullmatch(r"creg\s+([A-Za-z_][A-Za-z0-9_]*)\s*\[\s*(\d+)\s*\]", stmt)
            if m:
                self.cregs.append((m.group(1), int(m.group(2))))
                continue
            self.ops.append(self._parse_op(stmt))

    def _qubit(self, s):
        m = re.fullmatch(r"([A-Za-z_][A-Za-z0-9_]*)\s*\[\s*(\d+)\s*\]", s.strip())
        if not m:
            raise QasmError("bad qubit argument %r" % s)
        return (m.group(1), int(m.group(2)))

    def _parse_op(self, stmt):
        if stmt.startswith("barrier"):
            return ("barrier",)
        m = re.fullmatch(r"measure\s+(.+?)\s*->\s*(.+)", stmt, re.S)
        if m:
            return ("measure", self._qubit(m.group(1)), self._qubit(m.group(2)))
        m = re.fullmatch(r"reset\s+(.+)", stmt, re.S)
        if m:
            return ("reset", self._qubit(m.group(1)))
        m = re.fullmatch(r"if\s*\(\s*([A-Za-z_][A-Za-z0-9_]*)\s*==\s*(\d+)\s*\)\s*(.+)", stmt, re.S)
        if m:
            return ("if", m.group(1), int(m.group(2)), self._parse_op(m.group(3).strip()))
        m = _STMT.match(stmt)
        if not m:
            raise QasmError("cannot parse %r" % stmt)
        name = m.group(1)
        params = _split_args(m.group(3)) if m.group(3) is not None else []
        args = [self._qubit(a) for a in _split_args(m.group(4))]
        return ("gate", name, params, args)

    # ------------------------------------------------------------------ semantics
    def qubit_index(self):
        idx = {}
        k = 0
        for name, size in self.qregs:
            for i in range(size):
                idx[(name, i)] = k
                k += 1
        return idx, k

    def gate_unitary_ops(self, name, params, qubits, env=None, depth=0):
        """expand a gate application into primitive ('U', matrix, q) / ('CX', c, t) operations, standard order"""
        if depth > 20:
            raise QasmError("gate recursion")
        env = env or {}
        vals = [_eval_expr(p, env) if isinstance(p, str) else float(p) for p in params]
        if name == "U":
            if len(vals) != 3 or len(qubits) != 1:
                raise QasmError("U needs 3 parameters and 1 qubit")
            return [("U", u_matrix(*vals), qubits[0])]
        if name == "CX":
            if len(qubits) != 2:
                raise QasmError("CX needs 2 qubits")
            return [("CX", qubits[0], qubits[1])]
        if name not in self.gates:
            raise QasmError("undefined gate %r" % name)
        gparams, gargs, body = self.gates[name]
        if len(gparams) != len(vals) or len(gargs) != len(qubits):
            raise QasmError("gate %s: wrong number of parameters/arguments" % name)
        local_env = dict(zip(gparams, vals))
        amap = dict(zip(gargs, qubits))
        out = []
        for b in body:
            m = _STMT.match(b)
            if not m:
                raise QasmError("cannot parse gate body statement %r" % b)
            if m.group(1) == "barrier":
                continue
            bparams = _split_args(m.group(3)) if m.group(3) is not None else []
            bargs = [amap[a.strip()] for a in _split_args(m.group(4))]
            out += self.gate_unitary_ops(m.group(1), bparams, bargs, local_env, depth + 1)
        return out

    def run(self, setting, outcomes=None):
        """execute top to bottom on |0..0>.  setting in {0,1}: forced outcomes (unless impossible);
        returns (vector, n_qubits, creg values dict, list of (qubit index, outcome, was_random) per measurement)"""
        idx, n = self.qubit_index()
        v = sv.zero_state(n)
        cvals = {name: 0 for name, size in self.cregs}
        log = []

        def apply(op):
            nonlocal v
            kind = op[0]
            if kind == "barrier":
                return
            if kind == "gate":
                qs = [idx[a] for a in op[3]]
                for prim in self.gate_unitary_ops(op[1], op[2], qs):
                    if prim[0] == "U":
                        v = sv.apply1(v, n, prim[2], prim[1])
                    else:
                        v = sv.cnot(v, n, prim[1], prim[2])
            elif kind == "measure":
                q = idx[op[1]]
                rnd = sv.is_random(v, n, q)
                if outcomes is not None:
                    o = outcomes[len(log)]
                else:
                    o = sv.forced_outcome(v, n, q, setting)
                v, p = sv.project(v, n, q, o)
                log.append((q, o, rnd, p))
                cname, cbit = op[2]
                cvals[cname] = (cvals[cname] & ~(1 << cbit)) | (o << cbit)
            elif kind == "reset":
                q = idx[op[1]]
                o = sv.forced_outcome(v, n, q, 0)
                v, _ = sv.project(v, n, q, o)
                if o == 1:
                    v = sv.apply1(v, n, q, sv.GATES["X"])
            elif kind == "if":
                if cvals[op[1]] == op[2]:
                    apply(op[3])
            else:
                raise QasmError(kind)

        for op in self.ops:
            apply(op)
        return v, n, cvals, log

    def instruction_stream(self):
        """(name, qubits) list for cross-examination against another parser"""
        out = []
        for op in self.ops:
            if op[0] == "gate":
                out.append((op[1], tuple(op[3])))
            elif op[0] == "measure":
                out.append(("measure", (op[1],)))
            elif op[0] == "reset":
                out.append(("reset", (op[1],)))
            elif op[0] == "if":
                inner = op[3]
                out.append(("if:" + (inner[1] if inner[0] == "gate" else inner[0]), tuple(inner[3]) if inner[0] == "gate" else (inner[1],)))
            elif op[0] == "barrier":
                out.append(("barrier", ()))
        return out
