"""GF(2)/Pauli algebra and an independent tableau simulator.  Imports nothing from graphiq.

A Pauli is (x, z, k): Python ints as bit sets (bit q = qubit q) and k mod 4, denoting
    i^k * prod_q X_q^{x_q} Z_q^{z_q}            (X before Z on every qubit)
so Y = i X Z is (1,1,1).  This is deliberately *not* graphiq's (phase, iphase, (1,1)=Y) bookkeeping.
"""
import numpy as np

from . import statevec as sv


def popcount(a):
    return bin(a).count("1")


def mul(p, q):
    """p*q"""
    x1, z1, k1 = p
    x2, z2, k2 = q
    # moving Z^{z1} past X^{x2}: each common qubit gives -1
    k = (k1 + k2 + 2 * popcount(z1 & x2)) % 4
    return (x1 ^ x2, z1 ^ z2, k)


def commute(p, q):
    return (popcount(p[0] & q[1]) + popcount(p[1] & q[0])) % 2 == 0


def from_xzr(xbits, zbits, sign, iph=0):
    """graphiq-style row: (1,1) means Y, overall factor (-1)^sign * i^iph -> (x,z,k)"""
    x = z = 0
    ny = 0
    for q, (a, b) in enumerate(zip(xbits, zbits)):
        if a:
            x |= 1 << q
        if b:
            z |= 1 << q
        if a and b:
            ny += 1
    return (x, z, (ny + 2 * int(sign) + int(iph)) % 4)


def to_xzr(p, n):
    """(x,z,k) -> (xbits, zbits, sign) in graphiq's convention; k - #Y must be even"""
    x, z, k = p
    ny = popcount(x & z)
    r = (k - ny) % 4
    assert r in (0, 2), "not Hermitian"
    return [(x >> q) & 1 for q in range(n)], [(z >> q) & 1 for q in range(n)], r // 2


def is_hermitian(p):
    return (p[2] - popcount(p[0] & p[1])) % 2 == 0


def apply_to_vector(p, v, n):
    x, z, k = p
    idx = np.arange(2**n)
    # Z part then X part:  X^x Z^z |b> = (-1)^{z.b} |b xor x>
    zmask = 0
    xmask = 0
    for q in range(n):
        if (z >> q) & 1:
            zmask |= 1 << (n - 1 - q)
        if (x >> q) & 1:
            xmask |= 1 << (n - 1 - q)
    par = np.zeros(2**n, dtype=int)
    t = idx & zmask
    while np.any(t):
        par ^= t & 1
        t >>= 1
    out = np.empty_like(v)
    out[idx ^ xmask] = v * (1 - 2 * par)
    return (1j**k) * out


def stabilises(paulis, v, n, tol=1e-9):
    for p in paulis:
        if np.linalg.norm(apply_to_vector(p, v, n) - v) > tol * 100:
            return False
    return True


# ------------------------------------------------------------------ GF(2) on lists of int rows
def gf2_rank(rows):
    rows = [r for r in rows if r]
    rank = 0
    while rows:
        p = rows.pop()
        if p == 0:
            continue
        rank += 1
        lb = p & -p
        rows = [(r ^ p) if (r & lb) else r for r in rows]
        rows = [r for r in rows if r]
    return rank


def gf2_rank_matrix(m):
    m = np.array(m, dtype=int) % 2
    rows = [int("".join(str(int(b)) for b in r), 2) if len(r) else 0 for r in m]
    return gf2_rank(rows)


def gf2_inverse(m):
    m = np.array(m, dtype=int) % 2
    n = m.shape[0]
    a = np.concatenate([m, np.eye(n, dtype=int)], axis=1)
    r = 0
    for c in range(n):
        piv = None
        for i in range(r, n):
            if a[i, c]:
                piv = i
                break
        if piv is None:
            return None
        a[[r, piv]] = a[[piv, r]]
        for i in range(n):
            if i != r and a[i, c]:
                a[i] ^= a[r]
        r += 1
    return a[:, n:]


def symp_rows(paulis, n):
    """rows as ints over 2n bits (x bits then z bits)"""
    return [p[0] | (p[1] << n) for p in paulis]


def independent(paulis, n):
    return gf2_rank(symp_rows(paulis, n)) == len(paulis)


# ------------------------------------------------------------------ reading graphiq tableaux (duck typed)
def rows_of(table, phase, iphase, n):
    out = []
    for i in range(table.shape[0]):
        out.append(from_xzr(table[i, :n], table[i, n: 2 * n], phase[i], 0 if iphase is None else iphase[i]))
    return out


def clifford_tableau_problems(tab):
    """tab: object with table (2n x 2n), phase (2n), iphase (2n), n_qubits.  Returns list of problems:
    entries binary, shapes consistent, T Omega T^t = Omega (destabilizer i anticommutes with stabilizer i only)."""
    probs = []
    n = tab.n_qubits
    t = np.asarray(tab.table)
    ph = np.asarray(tab.phase)
    ip = np.asarray(tab.iphase)
    if t.shape != (2 * n, 2 * n):
        return ["table shape %s for n_qubits=%d" % (t.shape, n)]
    if ph.shape != (2 * n,) or ip.shape != (2 * n,):
        return ["phase shapes %s %s for n_qubits=%d" % (ph.shape, ip.shape, n)]
    if not np.all((t == 0) | (t == 1)):
        probs.append("table not binary")
    if not np.all((ph == 0) | (ph == 1)):
        probs.append("phase not binary")
    if not np.all((ip == 0) | (ip == 1)):
        probs.append("iphase not binary")
    if probs:
        return probs
    t = t.astype(int)
    om = np.zeros((2 * n, 2 * n), dtype=int)
    om[:n, n:] = np.eye(n, dtype=int)
    om[n:, :n] = np.eye(n, dtype=int)
    g = (t @ om @ t.T) % 2
    if not np.array_equal(g, om):
        probs.append("not symplectic")
    return probs


def stabilizer_paulis(tab):
    """signed stabilizer generators of a graphiq CliffordTableau / StabilizerTableau"""
    n = tab.n_qubits
    t = np.asarray(tab.table).astype(int)
    ph = np.asarray(tab.phase).astype(int)
    ip = getattr(tab, "iphase", None)
    if t.shape[0] == 2 * n:
        rows = range(n, 2 * n)
    else:
        rows = range(n)
    out = []
    for i in rows:
        out.append(from_xzr(t[i, :n], t[i, n: 2 * n], ph[i], 0 if ip is None else int(np.asarray(ip)[i])))
    return out


def denotes(tab, v, n=None):
    """does the stabilizer half of `tab` denote exactly the state vector v (signs included)?
    <=> every generator is Hermitian, fixes v, and the generators have GF(2) rank n."""
    n = tab.n_qubits if n is None else n
    ps = stabilizer_paulis(tab)
    if len(ps) != n:
        return False
    if not all(is_hermitian(p) for p in ps):
        return False
    if not independent(ps, n):
        return False
    return stabilises(ps, v, n)


# ------------------------------------------------------------------ independent tableau simulator (any n)
class PauliSim:
    """Stabilizer simulator on n signed generators (+ destabilizers), Pauli-algebra based."""

    def __init__(self, n):
        self.n = n
        self.stab = [(0, 1 << q, 0) for q in range(n)]
        self.destab = [(1 << q, 0, 0) for q in range(n)]

    def copy(self):
        o = PauliSim(self.n)
        o.stab = list(self.stab)
        o.destab = list(self.destab)
        return o

    @staticmethod
    def _conj1(p, q, g):
        x, z, k = p
        a, b = (x >> q) & 1, (z >> q) & 1
        m = 1 << q
        if g == "H":  # X<->Z ; XZ -> ZX = -XZ
            x = (x & ~m) | (b << q)
            z = (z & ~m) | (a << q)
            if a and b:
                k = (k + 2) % 4
        elif g == "P":  # X -> Y = iXZ ; Z -> Z ; XZ -> iXZZ = iX
            if a:
                z ^= m
                k = (k + 1) % 4
        elif g == "Pdag":  # X -> -Y = -iXZ
            if a:
                z ^= m
                k = (k + 3) % 4
        elif g == "X":  # Z -> -Z
            if b:
                k = (k + 2) % 4
        elif g == "Z":  # X -> -X
            if a:
                k = (k + 2) % 4
        elif g == "Y":
            if a != b:
                k = (k + 2) % 4
        elif g == "I":
            pass
        else:
            raise ValueError(g)
        return (x, z, k)

    def gate1(self, g, q):
        self.stab = [self._conj1(p, q, g) for p in self.stab]
        self.destab = [self._conj1(p, q, g) for p in self.destab]

    @staticmethod
    def _conj_cnot(p, c, t):
        # X_c -> X_c X_t ; Z_t -> Z_c Z_t ; with X^x Z^z ordering signs:
        x, z, k = p
        xc, zc, xt, zt = (x >> c) & 1, (z >> c) & 1, (x >> t) & 1, (z >> t) & 1
        # write p = i^k (X_c^xc Z_c^zc)(X_t^xt Z_t^zt) * rest; image = i^k (X_c X_t)^xc (Z_c)^zc (X_t)^xt (Z_c Z_t)^zt
        # reorder to X_c^xc Z_c^(zc+zt) X_t^(xc+xt) Z_t^zt : moving X_t^xc... commute across different qubits freely;
        # on qubit c: X^xc Z^zc Z^zt fine. on qubit t: X^xc X^xt Z^zt fine. cross terms: (X_cX_t)^xc then Z_c^zc then X_t^xt then (Z_cZ_t)^zt
        # qubit t order: X^xc , X^xt , Z^zt -> ok. qubit c order: X^xc, Z^zc, Z^zt -> ok.  no sign.
        x ^= xc << t
        z ^= zt << c
        return (x, z, k)

    def cnot(self, c, t):
        self.stab = [self._conj_cnot(p, c, t) for p in self.stab]
        self.destab = [self._conj_cnot(p, c, t) for p in self.destab]

    def cz(self, c, t):
        self.gate1("H", t)
        self.cnot(c, t)
        self.gate1("H", t)

    def measure_z(self, q, forced=None, rng_outcome=None):
        """returns (outcome, was_random).  forced in {0,1,None}; if random and forced is None uses rng_outcome"""
        m = 1 << q
        anti = [i for i, p in enumerate(self.stab) if p[0] & m]
        zq = (0, m, 0)
        if anti:
            i0 = anti[0]
            for i in anti[1:]:
                self.stab[i] = mul(self.stab[i0], self.stab[i])
            for i, d in enumerate(self.destab):
                if i != i0 and (d[0] & m):
                    self.destab[i] = mul(self.stab[i0], d)
            self.destab[i0] = self.stab[i0]
            out = forced if forced is not None else rng_outcome
            self.stab[i0] = (0, m, 2 * out)
            return out, True
        # deterministic: Z_q = +- product of stabilizers whose destabilizer anticommutes with Z_q
        acc = (0, 0, 0)
        for i, d in enumerate(self.destab):
            if d[0] & m:
                acc = mul(acc, self.stab[i])
        assert acc[0] == 0 and acc[1] == m, "tableau inconsistent"
        return (acc[2] // 2) % 2, False

    def reset_z(self, q, forced=None, rng_outcome=0):
        out, _ = self.measure_z(q, forced, rng_outcome)
        if out == 1:
            self.gate1("X", q)
        return out

    def stabilizer_signed(self):
        return list(self.stab)


def group_key(paulis, n):
    """canonical key of the stabilizer group generated by signed Paulis: reduced row echelon with signs"""
    rows = list(paulis)
    res = []
    used = [False] * len(rows)
    for bit in range(2 * n):
        def has(p):
            return ((p[0] | (p[1] << n)) >> bit) & 1
        piv = None
        for i, p in enumerate(rows):
            if not used[i] and has(p):
                piv = i
                break
        if piv is None:
            continue
        used[piv] = True
        for i, p in enumerate(rows):
            if i != piv and has(p):
                rows[i] = mul(rows[piv], p)
        res.append(piv)
    return tuple(sorted(rows[i] for i in res))


def reduce_in_group(gens, g, n):
    """express g through the independent signed generators: returns the residual Pauli g * (product of generators);
    (0, 0, k) means (+1 if k == 0, -1 if k == 2) * g lies in the group"""
    rows = list(gens)
    piv = []
    used = [False] * len(rows)
    for bit in range(2 * n):
        def has(p):
            return ((p[0] | (p[1] << n)) >> bit) & 1
        c = None
        for i, p in enumerate(rows):
            if not used[i] and has(p):
                c = i
                break
        if c is None:
            continue
        used[c] = True
        for i, p in enumerate(rows):
            if i != c and has(p):
                rows[i] = mul(rows[c], p)
        piv.append((bit, c))
    r = g
    for bit, c in piv:
        if ((r[0] | (r[1] << n)) >> bit) & 1:
            r = mul(rows[c], r)
    return r


def stabilizer_overlap2(sa, sb, n):
    """|<a|b>|^2 of two stabilizer states given by independent signed generators: project a onto the generators of b one
    by one; a commuting generator must be in a's group with the right sign (else 0), an anticommuting one halves the overlap"""
    cur = list(sa)
    f = 1.0
    for g in sb:
        anti = [i for i, p in enumerate(cur) if not commute(p, g)]
        if anti:
            i0 = anti[0]
            for i in anti[1:]:
                cur[i] = mul(cur[i0], cur[i])
            cur[i0] = g
            f *= 0.5
        else:
            r = reduce_in_group(cur, g, n)
            assert r[0] == 0 and r[1] == 0, "commuting Pauli outside a maximal stabilizer group"
            if r[2] % 4 == 2:
                return 0.0
            assert r[2] % 4 == 0
    return f
