"""Dense reference simulator written from textbook definitions.  Imports nothing from graphiq.

Qubit 0 is the most significant bit (kron order).  Amplitudes of Clifford circuits are dyadic
(times powers of i and 1/sqrt2), so the 1e-9 tolerances below are unambiguous.
"""
import itertools

import numpy as np

TOL = 1e-9
_S = 1.0 / np.sqrt(2.0)
GATES = {
    "I": np.eye(2, dtype=complex),
    "H": np.array([[_S, _S], [_S, -_S]], dtype=complex),
    "P": np.array([[1, 0], [0, 1j]], dtype=complex),
    "Pdag": np.array([[1, 0], [0, -1j]], dtype=complex),
    "X": np.array([[0, 1], [1, 0]], dtype=complex),
    "Y": np.array([[0, -1j], [1j, 0]], dtype=complex),
    "Z": np.array([[1, 0], [0, -1]], dtype=complex),
}


def zero_state(n):
    v = np.zeros(2**n, dtype=complex)
    v[0] = 1.0
    return v


def apply1(v, n, q, u):
    t = v.reshape(2**q, 2, 2 ** (n - q - 1))
    return np.einsum("ab,ibj->iaj", u, t).reshape(-1)


def _bit(n, q):
    idx = np.arange(2**n)
    return (idx >> (n - 1 - q)) & 1


def cnot(v, n, c, t):
    assert c != t
    idx = np.arange(2**n)
    flip = idx ^ (_bit(n, c) << (n - 1 - t))
    out = np.empty_like(v)
    out[flip] = v[idx]
    return out


def cz(v, n, c, t):
    assert c != t
    return v * (1 - 2 * (_bit(n, c) & _bit(n, t)))


def prob1(v, n, q):
    return float(np.sum(np.abs(v[_bit(n, q) == 1]) ** 2))


def project(v, n, q, outcome):
    """returns (normalised post-measurement vector, Born probability of `outcome`)"""
    mask = _bit(n, q) == outcome
    p = float(np.sum(np.abs(v[mask]) ** 2))
    w = np.where(mask, v, 0)
    if p > 1e-14:
        w = w / np.sqrt(p)
    return w, p


def forced_outcome(v, n, q, setting):
    """documented semantics of measurement_determinism: take `setting` unless its probability is 0"""
    p1 = prob1(v, n, q)
    if setting == 1:
        return 1 if p1 > TOL else 0
    if setting == 0:
        return 0 if (1 - p1) > TOL else 1
    raise ValueError(setting)


def is_random(v, n, q):
    p1 = prob1(v, n, q)
    return TOL < p1 < 1 - TOL


def same_state(a, b, tol=TOL):
    na, nb = np.linalg.norm(a), np.linalg.norm(b)
    if abs(na - 1) > 1e-7 or abs(nb - 1) > 1e-7:
        return False
    return abs(abs(np.vdot(a, b)) - 1.0) < tol


def overlap2(a, b):
    return float(abs(np.vdot(a, b)) ** 2)


def dm(v):
    return np.outer(v, v.conj())


def kron_all(vs):
    out = np.array([1.0 + 0j])
    for x in vs:
        out = np.kron(out, x)
    return out


def insert_zero(v, n, pos):
    """|psi> on n qubits -> state with an extra |0> at position pos (n+1 qubits)"""
    t = v.reshape(2**pos, 2 ** (n - pos))
    out = np.zeros((2**pos, 2, 2 ** (n - pos)), dtype=complex)
    out[:, 0, :] = t
    return out.reshape(-1)


def remove_product_qubit(v, n, q):
    """if qubit q is in a product state with the rest, return the state of the rest (else None)"""
    t = v.reshape(2**q, 2, 2 ** (n - q - 1))
    a, b = t[:, 0, :].reshape(-1), t[:, 1, :].reshape(-1)
    na, nb = np.linalg.norm(a), np.linalg.norm(b)
    big = a if na >= nb else b
    small = b if na >= nb else a
    big_n = big / np.linalg.norm(big)
    # product iff small is proportional to big
    resid = small - np.vdot(big_n, small) * big_n
    if np.linalg.norm(resid) > 1e-7:
        return None
    return big_n


def schmidt_rank_log2(v, n, k):
    """log2 of the Schmidt rank across the cut {0..k} | {k+1..n-1}"""
    m = v.reshape(2 ** (k + 1), 2 ** (n - k - 1))
    s = np.linalg.svd(m, compute_uv=False)
    r = int(np.sum(s > 1e-7))
    return int(round(np.log2(r)))


# ---------------------------------------------------------------- density-matrix layer
def dm_apply_unitary1(rho, n, q, u):
    full = kron_all([u if i == q else GATES["I"] for i in range(n)])
    return full @ rho @ full.conj().T


def op1(n, q, u):
    return kron_all([u if i == q else GATES["I"] for i in range(n)])


def dm_kraus(rho, ks):
    out = np.zeros_like(rho)
    for k in ks:
        out = out + k @ rho @ k.conj().T
    return out


def partial_trace_textbook(rho, keep, dims):
    """reduced state on the subsystems in `keep` (kept in increasing order), explicit index loops"""
    dims = list(dims)
    keep = sorted(keep)
    n = len(dims)
    t = rho.reshape(dims + dims)
    kd = [dims[i] for i in keep]
    rest = [i for i in range(n) if i not in keep]
    rd = [dims[i] for i in rest]
    dk = int(np.prod(kd)) if kd else 1
    out = np.zeros((dk, dk), dtype=complex)
    for a in itertools.product(*[range(d) for d in kd]):
        for b in itertools.product(*[range(d) for d in kd]):
            s = 0
            for r in itertools.product(*[range(d) for d in rd]):
                ia = [0] * n
                ib = [0] * n
                for j, i in enumerate(keep):
                    ia[i] = a[j]
                    ib[i] = b[j]
                for j, i in enumerate(rest):
                    ia[i] = r[j]
                    ib[i] = r[j]
                s += t[tuple(ia + ib)]
            ra = int(np.ravel_multi_index(a, kd)) if kd else 0
            rb = int(np.ravel_multi_index(b, kd)) if kd else 0
            out[ra, rb] = s
    return out


def partial_trace_fast(rho, keep, dims):
    dims = list(dims)
    keep = sorted(keep)
    n = len(dims)
    t = rho.reshape(dims + dims)
    rest = [i for i in range(n) if i not in keep]
    for cnt, i in enumerate(sorted(rest, reverse=True)):
        t = np.trace(t, axis1=i, axis2=i + t.ndim // 2)
    dk = int(np.prod([dims[i] for i in keep])) if keep else 1
    return t.reshape(dk, dk)


def psd_sqrt(a):
    w, v = np.linalg.eigh((a + a.conj().T) / 2)
    w = np.clip(w, 0, None)
    return (v * np.sqrt(w)) @ v.conj().T


def fidelity(rho, sigma):
    """Uhlmann fidelity (Tr sqrt( sqrt(rho) sigma sqrt(rho) ))^2"""
    s = psd_sqrt(rho)
    m = s @ sigma @ s
    w = np.linalg.eigvalsh((m + m.conj().T) / 2)
    return float(np.sum(np.sqrt(np.clip(w, 0, None))) ** 2)


def fidelity_nuclear(rho, sigma):
    m = psd_sqrt(rho) @ psd_sqrt(sigma)
    return float(np.sum(np.linalg.svd(m, compute_uv=False)) ** 2)


def trace_distance(rho, sigma):
    d = rho - sigma
    return float(0.5 * np.sum(np.linalg.svd(d, compute_uv=False)))


def graph_state(n, edges):
    """|G> from the definition: amplitude (-1)^{#edges inside supp(x)} / 2^{n/2}; edges as index pairs"""
    idx = np.arange(2**n)
    sign = np.zeros(2**n, dtype=int)
    for a, b in edges:
        sign ^= _bit(n, a) & _bit(n, b)
    return ((1 - 2 * sign) / np.sqrt(2**n)).astype(complex)
