"""Self-test of the reference models (exit 2 when it fails; never a violation)."""
import itertools
import random

import numpy as np

from . import pauli as rp
from . import statevec as sv


def _rand_program(rng, n, length):
    prog = []
    for _ in range(length):
        k = rng.random()
        if k < 0.5 or n == 1:
            prog.append((rng.choice(["H", "P", "Pdag", "X", "Y", "Z", "I"]), rng.randrange(n)))
        elif k < 0.8:
            a, b = rng.sample(range(n), 2)
            prog.append((rng.choice(["CNOT", "CZ"]), a, b))
        else:
            prog.append(("M", rng.randrange(n), rng.randrange(2)))
    return prog


def dense_vs_pauli(n_programs, seed=12345):
    rng = random.Random(seed)
    for _ in range(n_programs):
        n = rng.randint(1, 5)
        prog = _rand_program(rng, n, rng.randint(0, 25))
        v = sv.zero_state(n)
        ps = rp.PauliSim(n)
        for op in prog:
            if op[0] == "CNOT":
                v = sv.cnot(v, n, op[1], op[2]); ps.cnot(op[1], op[2])
            elif op[0] == "CZ":
                v = sv.cz(v, n, op[1], op[2]); ps.cz(op[1], op[2])
            elif op[0] == "M":
                want = sv.forced_outcome(v, n, op[1], op[2])
                rnd = sv.is_random(v, n, op[1])
                got, was_random = ps.measure_z(op[1], forced=op[2])
                assert got == want and rnd == was_random, (prog, op)
                v, _ = sv.project(v, n, op[1], want)
            else:
                v = sv.apply1(v, n, op[1], sv.GATES[op[0]]); ps.gate1(op[0], op[1])
        assert rp.stabilises(ps.stab, v, n) and rp.independent(ps.stab, n), prog
        for i, d in enumerate(ps.destab):
            for j, s in enumerate(ps.stab):
                assert rp.commute(d, s) == (i != j), prog


def pauli_identities():
    X, Z, Y = (1, 0, 0), (0, 1, 0), (1, 1, 1)
    assert rp.mul(X, Z) == (1, 1, 0)
    assert rp.mul(Z, X) == (1, 1, 2)
    assert rp.mul((0, 0, 1), rp.mul(X, Z)) == Y
    for p, m in ((X, sv.GATES["X"]), (Z, sv.GATES["Z"]), (Y, sv.GATES["Y"])):
        for b in range(2):
            v = np.zeros(2, dtype=complex); v[b] = 1
            assert np.allclose(rp.apply_to_vector(p, v, 1), m @ v)
    # conjugation tables against matrices
    for g in ["H", "P", "Pdag", "X", "Y", "Z"]:
        U = sv.GATES[g]
        for p, m in ((X, sv.GATES["X"]), (Z, sv.GATES["Z"]), (Y, sv.GATES["Y"])):
            q = rp.PauliSim._conj1(p, 0, g)
            want = U @ m @ U.conj().T
            got = np.column_stack([rp.apply_to_vector(q, e, 1) for e in np.eye(2, dtype=complex)])
            assert np.allclose(got, want), (g, p)


def density_layer(seed=7):
    rng = np.random.default_rng(seed)
    for _ in range(20):
        d = int(rng.choice([2, 4]))
        a = rng.normal(size=(d, d)) + 1j * rng.normal(size=(d, d)); rho = a @ a.conj().T; rho /= np.trace(rho)
        b = rng.normal(size=(d, d)) + 1j * rng.normal(size=(d, d)); sig = b @ b.conj().T; sig /= np.trace(sig)
        f1, f2 = sv.fidelity(rho, sig), sv.fidelity_nuclear(rho, sig)
        assert abs(f1 - f2) < 1e-8 and abs(sv.fidelity(rho, rho) - 1) < 1e-8
        assert abs(f1 - sv.fidelity(sig, rho)) < 1e-8
    # closed form on qubits: F = tr(rs) + 2 sqrt(det r det s)
    for _ in range(20):
        a = rng.normal(size=(2, 2)) + 1j * rng.normal(size=(2, 2)); r = a @ a.conj().T; r /= np.trace(r)
        b = rng.normal(size=(2, 2)) + 1j * rng.normal(size=(2, 2)); s = b @ b.conj().T; s /= np.trace(s)
        cf = np.real(np.trace(r @ s)) + 2 * np.sqrt(np.real(np.linalg.det(r)) * np.real(np.linalg.det(s)))
        assert abs(cf - sv.fidelity(r, s)) < 1e-8
    for dims in ([2, 2, 2], [2, 3, 2]):
        D = int(np.prod(dims))
        a = rng.normal(size=(D, D)) + 1j * rng.normal(size=(D, D)); rho = a @ a.conj().T; rho /= np.trace(rho)
        for k in range(len(dims) + 1):
            for keep in itertools.combinations(range(len(dims)), k):
                assert np.allclose(sv.partial_trace_textbook(rho, keep, dims), sv.partial_trace_fast(rho, keep, dims))


def count_stabilizer_states():
    # 6 / 60 single/two-qubit stabilizer states by closure under Clifford generators
    for n, want in ((1, 6), (2, 60)):
        seen = {}
        start = rp.PauliSim(n)
        todo = [start]
        seen[rp.group_key(start.stab, n)] = 1
        while todo:
            s = todo.pop()
            for g in ["H", "P"]:
                for q in range(n):
                    t = s.copy(); t.gate1(g, q)
                    k = rp.group_key(t.stab, n)
                    if k not in seen:
                        seen[k] = 1; todo.append(t)
            for a in range(n):
                for b in range(n):
                    if a != b:
                        t = s.copy(); t.cnot(a, b)
                        k = rp.group_key(t.stab, n)
                        if k not in seen:
                            seen[k] = 1; todo.append(t)
        assert len(seen) == want, (n, len(seen))


def overlap_oracle(n_cases):
    """Pauli-algebra overlap of two stabilizer states against dense vectors (random Clifford words, n <= 5)"""
    import random

    rng = random.Random(11)
    seen = set()
    for _ in range(n_cases):
        n = rng.randint(1, 5)
        sims, vecs = [], []
        for _k in range(2):
            ps = rp.PauliSim(n)
            v = sv.zero_state(n)
            for _j in range(rng.randint(0, 12)):
                if n >= 2 and rng.random() < 0.4:
                    a, b = rng.sample(range(n), 2)
                    ps.cnot(a, b); v = sv.cnot(v, n, a, b)
                else:
                    g = rng.choice(["H", "P", "X", "Z", "Y"]); q = rng.randrange(n)
                    ps.gate1(g, q); v = sv.apply1(v, n, q, sv.GATES[g])
            sims.append(ps); vecs.append(v)
        f = rp.stabilizer_overlap2(sims[0].stab, sims[1].stab, n)
        assert abs(f - sv.overlap2(vecs[0], vecs[1])) < 1e-9, (f, sv.overlap2(vecs[0], vecs[1]))
        seen.add(round(f, 6))
    assert 0.0 in seen and 1.0 in seen and len(seen) >= 4, seen


def run(full=False):
    n = 0
    pauli_identities(); n += 1
    dense_vs_pauli(2000 if full else 150); n += 1
    density_layer(); n += 1
    overlap_oracle(3000 if full else 300); n += 1
    if full:
        count_stabilizer_states(); n += 1
    try:
        from . import graphs as rg
        rg.selftest(full); n += 1
    except ImportError:
        pass
    return n
