"""Sharded Hypothesis / enumeration driver with bucketed collect-then-shrink.

A property module provides
    ID, TITLE, RULE (text of the non-trivial rule), SUBS = [Sub(...), ...]
and every Sub has  check(desc) -> Info | raises Violation / Skip.

Every run is a pure function of (code, VERIF_SEED, tier).
"""
import collections
import hashlib
import json
import multiprocessing as mp
import os
import resource
import signal
import sys
import time
import traceback

from .core import CaseTimeout, Info, Skip, Violation, canon, digest, eprint, jsonable

MAX_ROUNDS = 4
N_WORKERS = int(os.environ.get("VERIF_WORKERS", "16"))


class Sub:
    def __init__(self, name, check, strategy=None, enum=None, n=None, shards=None, timeout=None,
                 shrink=True, doc=""):
        self.name = name
        self.check = check
        self.strategy = strategy  # callable(tier) -> hypothesis strategy of descriptors
        self.enum = enum  # callable(tier, seed) -> (list of descriptors, exhaustive?)
        self.n = n or {"quick": 100, "thorough": 1000}
        self.shards = shards or {"quick": N_WORKERS, "thorough": N_WORKERS}
        self.timeout = timeout or {"quick": 60, "thorough": 300}
        self.shrink = shrink
        self.doc = doc


class Stats:
    def __init__(self):
        self.evaluations = 0
        self.ok = 0
        self.nontrivial = set()
        self.classes = collections.Counter()
        self.samples = []
        self.nt_samples = []
        self.excluded = collections.Counter()
        self.timeouts = 0
        self.skipped = 0
        self.found = []  # (key, detail, desc)
        self.errors = []
        self.exhaustive = None

    def record(self, desc, info):
        self.ok += 1
        for c in info.get("classes", ()):
            self.classes[c] += 1
        if info.get("nontrivial"):
            self.nontrivial.add(digest(desc))
            if len(self.nt_samples) < 2:
                self.nt_samples.append(jsonable(desc))
        elif len(self.samples) < 1:
            self.samples.append(jsonable(desc))

    def merge(self, o):
        self.evaluations += o.evaluations
        self.ok += o.ok
        self.nontrivial |= o.nontrivial
        self.classes.update(o.classes)
        self.samples = (self.samples + o.samples)[:2]
        self.nt_samples = (self.nt_samples + o.nt_samples)[:3]
        self.excluded.update(o.excluded)
        self.timeouts += o.timeouts
        self.skipped += o.skipped
        self.found += o.found
        self.errors += o.errors


# ----------------------------------------------------------------------------------------------
# worker side
_MOD = None
_ENUM = {}
_KNOWN = set()
_TIER = "quick"


def _alarm(signum, frame):
    raise CaseTimeout("watchdog")


def _worker_init():
    signal.signal(signal.SIGALRM, _alarm)
    try:
        lim = int(float(os.environ.get("VERIF_MEM_GB", "8")) * (1 << 30))
        resource.setrlimit(resource.RLIMIT_AS, (lim, lim))
    except Exception:
        pass
    if not os.environ.get("VERIF_DEBUG"):
        devnull = os.open(os.devnull, os.O_WRONLY)
        os.dup2(devnull, 1)
        os.dup2(devnull, 2)
    sys.setrecursionlimit(5000)


def run_case(sub, desc, stats, excluded, target, timeout):
    """Run one case.  Returns None, or re-raises the Violation that should be shown to the driver."""
    stats.evaluations += 1
    signal.setitimer(signal.ITIMER_REAL, timeout)
    try:
        info = sub.check(desc)
        signal.setitimer(signal.ITIMER_REAL, 0)
    except Violation as v:
        signal.setitimer(signal.ITIMER_REAL, 0)
        if v.key in excluded:
            stats.excluded[v.key] += 1
            return
        if target[0] is None:
            target[0] = v.key
        if v.key == target[0]:
            target[1] = (v.key, v.detail, jsonable(desc))
            raise
        stats.excluded[("other-bucket-deferred",) + v.key[1:]] += 0  # looked at in a later round
        return
    except Skip:
        signal.setitimer(signal.ITIMER_REAL, 0)
        stats.skipped += 1
        return
    except CaseTimeout:
        signal.setitimer(signal.ITIMER_REAL, 0)
        stats.timeouts += 1
        return
    except MemoryError:
        signal.setitimer(signal.ITIMER_REAL, 0)
        stats.timeouts += 1
        return
    finally:
        signal.setitimer(signal.ITIMER_REAL, 0)
    stats.record(desc, info if info is not None else Info())


def _shard_seed(seed, prop, sub, shard, rnd):
    h = hashlib.sha256(("%s|%s|%s|%s|%s" % (seed, prop, sub, shard, rnd)).encode()).digest()
    return int.from_bytes(h[:8], "big")


def _hyp_shard(args):
    si, shard, seed, n_examples = args
    import hypothesis
    from hypothesis import HealthCheck, Phase, given, settings

    sub = _MOD.SUBS[si]
    stats = Stats()
    excluded = set(_KNOWN)
    timeout = sub.timeout[_TIER]
    strat = sub.strategy(_TIER)
    phases = [Phase.generate, Phase.shrink] if sub.shrink else [Phase.generate]
    for rnd in range(MAX_ROUNDS):
        target = [None, None]
        # Hypothesis always starts the generate phase with the minimal example; with a handful of examples per shard every
        # shard would spend one of them (all of them for n = 1) on that same case: generate one more and skip the first.
        n_first = n_examples if rnd == 0 else max(20, n_examples // 2)
        skip = [1 if (n_first <= 8 and shard > 0) else 0]

        def body(desc):
            if skip[0]:
                skip[0] = 0
                return
            run_case(sub, desc, stats, excluded, target, timeout)

        test = given(strat)(body)
        test = settings(
            max_examples=n_first + skip[0],
            database=None,
            deadline=None,
            derandomize=False,
            report_multiple_bugs=False,
            phases=phases,
            suppress_health_check=list(HealthCheck),
            print_blob=False,
        )(test)
        test = hypothesis.seed(_shard_seed(seed, _MOD.ID, sub.name, shard, rnd))(test)
        try:
            test()
        except Violation:
            key, detail, desc = target[1]
            if not sub.shrink:
                desc = generic_shrink(sub, desc, key, timeout)
            stats.found.append((key, detail, desc, sub.name))
            excluded.add(key)
            continue
        except Exception as e:  # Flaky, harness bug, ...
            name = type(e).__name__
            if target[1] is not None and "Flaky" in name:
                key, detail, desc = target[1]
                rep = _confirm(sub, desc, key, timeout)
                if rep:
                    stats.found.append((key, detail, desc, sub.name))
                    excluded.add(key)
                    continue
                stats.errors.append("flaky, not reproducible: %s %s" % (key, canon(desc)[:600]))
                excluded.add(key)
                continue
            stats.errors.append("%s: %s\n%s" % (name, e, traceback.format_exc()[-3000:]))
            break
        break
    return si, stats


def _confirm(sub, desc, key, timeout, times=3):
    for _ in range(times):
        signal.setitimer(signal.ITIMER_REAL, timeout)
        try:
            sub.check(desc)
            return False
        except Violation as v:
            if v.key != key:
                return False
        except (Skip, CaseTimeout):
            return False
        finally:
            signal.setitimer(signal.ITIMER_REAL, 0)
    return True


def _same(sub, desc, key, timeout):
    signal.setitimer(signal.ITIMER_REAL, timeout)
    try:
        sub.check(desc)
    except Violation as v:
        return v.key == key
    except BaseException:
        return False
    finally:
        signal.setitimer(signal.ITIMER_REAL, 0)
    return False


def generic_shrink(sub, desc, key, timeout, budget_s=40):
    """bounded delta-debugging over every list inside the descriptor (delete one element at a time)"""
    t0 = time.time()
    desc = json.loads(canon(desc))

    def lists(d, path=()):
        if isinstance(d, list):
            yield path
            for i, x in enumerate(d):
                yield from lists(x, path + (i,))
        elif isinstance(d, dict):
            for k in sorted(d):
                yield from lists(d[k], path + (k,))

    def get(d, path):
        for p in path:
            d = d[p]
        return d

    changed = True
    while changed and time.time() - t0 < budget_s:
        changed = False
        for path in list(lists(desc)):
            try:
                lst = get(desc, path)
            except (KeyError, IndexError, TypeError):
                continue
            if not isinstance(lst, list):
                continue
            i = len(lst) - 1
            while i >= 0 and time.time() - t0 < budget_s:
                cand = json.loads(canon(desc))
                del get(cand, path)[i]
                if _same(sub, cand, key, timeout):
                    desc = cand
                    lst = get(desc, path)
                    changed = True
                i -= 1
    return desc


def _enum_chunk(args):
    si, lo, hi = args
    sub = _MOD.SUBS[si]
    stats = Stats()
    excluded = set(_KNOWN)
    timeout = sub.timeout[_TIER]
    cases = _ENUM[si]
    best = {}
    for i in range(lo, hi):
        desc = cases[i]
        target = [None, None]
        try:
            run_case(sub, desc, stats, excluded, target, timeout)
        except Violation as v:
            cur = best.get(v.key)
            d = jsonable(desc)
            if cur is None or len(canon(d)) < len(canon(cur[2])):
                best[v.key] = (v.key, v.detail, d, sub.name)
            stats.excluded[("enum-repeat",) + v.key[1:]] += 0
        except Exception as e:
            stats.errors.append("%s: %s\n%s" % (type(e).__name__, e, traceback.format_exc()[-3000:]))
            break
    stats.found = list(best.values())
    return si, stats


# ----------------------------------------------------------------------------------------------
# parent side
def explore(mod, tier, seed, known_keys, only=None):
    """Run every sub-check of the module.  Returns {sub name: Stats}."""
    global _MOD, _ENUM, _KNOWN, _TIER
    _MOD, _KNOWN, _TIER = mod, set(known_keys), tier
    _ENUM = {}
    tasks_h, tasks_e = [], []
    per_sub = {s.name: Stats() for s in mod.SUBS}
    for si, sub in enumerate(mod.SUBS):
        if only and sub.name not in only:
            continue
        if sub.enum is not None:
            cases, exhaustive = sub.enum(tier, seed)
            cases = list(cases)
            _ENUM[si] = cases
            per_sub[sub.name].exhaustive = bool(exhaustive)
            n = len(cases)
            step = max(1, min(2000, -(-n // (N_WORKERS * 4))))
            for lo in range(0, n, step):
                tasks_e.append((si, lo, min(n, lo + step)))
        if sub.strategy is not None:
            for shard in range(sub.shards[tier]):
                tasks_h.append((si, shard, seed, sub.n[tier]))
    ctx = mp.get_context("fork")
    with ctx.Pool(N_WORKERS, initializer=_worker_init, maxtasksperchild=None) as pool:
        res_e = pool.imap_unordered(_enum_chunk, tasks_e, chunksize=1)
        res_h = pool.imap_unordered(_hyp_shard, tasks_h, chunksize=1)
        for it in (res_h, res_e):
            for si, st in it:
                per_sub[mod.SUBS[si].name].merge(st)
    return per_sub
