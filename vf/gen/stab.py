"""Stabilizer states in arbitrary presentations, generated in the *reference* algebra.

descriptor: {"n": n, "word": [[g,q] | ["CNOT"|"CZ",a,b] ...], "rowops": [["mul",i,j] | ["swap",i,j] | ["dmix",i,j] |
             ["dsign",i]], optional "M": [row ints]}   (indices taken modulo n; degenerate ops are skipped)
The state is word|0..0>; the presentation is the reference generators re-expressed by the row operations
(each keeps the destabilizer/stabilizer pairing), signs by reference Pauli multiplication.
"""
import itertools

import numpy as np
from hypothesis import strategies as st

from ..ref import pauli as rp
from ..ref import statevec as sv

G1 = ["H", "P", "Pdag", "X", "Y", "Z"]


def run_word(n, word, dense=True):
    ps = rp.PauliSim(n)
    v = sv.zero_state(n) if dense else None
    for w in word:
        if w[0] in ("CNOT", "CZ"):
            a, b = w[1] % n, w[2] % n
            if a == b:
                continue
            if w[0] == "CNOT":
                ps.cnot(a, b)
                if dense:
                    v = sv.cnot(v, n, a, b)
            else:
                ps.cz(a, b)
                if dense:
                    v = sv.cz(v, n, a, b)
        else:
            q = w[1] % n
            ps.gate1(w[0], q)
            if dense:
                v = sv.apply1(v, n, q, sv.GATES[w[0]])
    return ps, v


def _herm(p):
    """multiply by i if needed to make the Pauli Hermitian"""
    if rp.is_hermitian(p):
        return p
    return (p[0], p[1], (p[2] + 1) % 4)


def present(desc, dense=True):
    """returns (stab paulis, destab paulis, vector or None)"""
    n = desc["n"]
    ps, v = run_word(n, desc.get("word", []), dense=dense)
    S, D = list(ps.stab), list(ps.destab)
    M = desc.get("M")
    if M is not None:
        S2 = []
        for i in range(n):
            acc = (0, 0, 0)
            for j in range(n):
                if (M[i] >> j) & 1:
                    acc = rp.mul(acc, S[j])
            S2.append(acc)
        Mm = np.array([[(M[i] >> j) & 1 for j in range(n)] for i in range(n)], dtype=int)
        inv = rp.gf2_inverse(Mm)
        assert inv is not None
        MiT = inv.T % 2
        D2 = []
        for i in range(n):
            acc = (0, 0, 0)
            for j in range(n):
                if MiT[i, j]:
                    acc = rp.mul(acc, D[j])
            D2.append(_herm(acc))
        S, D = S2, D2
    for op in desc.get("rowops", []):
        if n == 0:
            break
        if op[0] == "mul":
            i, j = op[1] % n, op[2] % n
            if i == j:
                continue
            S[i] = rp.mul(S[i], S[j])
            D[j] = _herm(rp.mul(D[j], D[i]))
        elif op[0] == "swap":
            i, j = op[1] % n, op[2] % n
            S[i], S[j] = S[j], S[i]
            D[i], D[j] = D[j], D[i]
        elif op[0] == "dmix":
            i, j = op[1] % n, op[2] % n
            if i == j:
                D[i] = _herm(rp.mul(D[i], S[i]))
            else:
                D[i] = _herm(rp.mul(D[i], S[j]))
                D[j] = _herm(rp.mul(D[j], S[i]))
        elif op[0] == "dsign":
            i = op[1] % n
            D[i] = (D[i][0], D[i][1], (D[i][2] + 2) % 4)
    # internal consistency of the generator itself
    for i in range(n):
        assert rp.is_hermitian(S[i]) and rp.is_hermitian(D[i])
        for j in range(n):
            assert rp.commute(S[i], S[j])
            assert rp.commute(D[i], D[j])
            assert rp.commute(D[i], S[j]) == (i != j)
    return S, D, v


def xzr_arrays(paulis, n):
    t = np.zeros((len(paulis), 2 * n), dtype=int)
    r = np.zeros(len(paulis), dtype=int)
    for i, p in enumerate(paulis):
        xb, zb, s = rp.to_xzr(p, n)
        t[i, :n] = xb
        t[i, n:] = zb
        r[i] = s
    return t, r


def stabilizer_tableau(S, n):
    from graphiq.backends.stabilizer.tableau import StabilizerTableau

    t, r = xzr_arrays(S, n)
    return StabilizerTableau(t, r)


def clifford_tableau(S, D, n):
    from graphiq.backends.stabilizer.clifford_tableau import CliffordTableau

    ts, rs = xzr_arrays(S, n)
    td, rd = xzr_arrays(D, n)
    return CliffordTableau(np.vstack([td, ts]), np.concatenate([rd, rs]))


def classes(S, n):
    cl = []
    if any(rp.popcount(p[0] & p[1]) for p in S):
        cl.append("has_Y")
    if any(rp.to_xzr(p, n)[2] for p in S):
        cl.append("negative_sign")
    xs = [p[0] for p in S]
    # graph form: x part is identity matrix
    if not all(xs[i] == (1 << i) for i in range(n)):
        cl.append("non_graph_form")
    return cl


# ------------------------------------------------------------------------------------- strategies
def st_word(n_max_index=7, max_len=25):
    return st.lists(
        st.one_of(
            st.tuples(st.sampled_from(G1), st.integers(0, n_max_index)),
            st.tuples(st.sampled_from(["CNOT", "CZ", "CNOT"]), st.integers(0, n_max_index), st.integers(0, n_max_index)),
        ).map(list),
        min_size=0, max_size=max_len,
    )


def st_rowops(n_max_index=7, max_len=12):
    return st.lists(
        st.one_of(
            st.tuples(st.sampled_from(["mul", "mul", "swap", "dmix"]), st.integers(0, n_max_index), st.integers(0, n_max_index)),
            st.tuples(st.just("dsign"), st.integers(0, n_max_index)),
        ).map(list),
        min_size=0, max_size=max_len,
    )


@st.composite
def st_state(draw, min_n=1, max_n=6, max_word=25, max_rowops=12):
    n = draw(st.integers(min_n, max_n))
    lo = draw(st.sampled_from([0, 3, 8]))
    word = draw(st.lists(
        st.one_of(
            st.tuples(st.sampled_from(G1), st.integers(0, n - 1)),
            st.tuples(st.sampled_from(["CNOT", "CZ", "CNOT"]), st.integers(0, n - 1), st.integers(0, n - 1)),
        ).map(list), min_size=min(lo, max_word), max_size=max_word))
    rowops = draw(st.lists(
        st.one_of(
            st.tuples(st.sampled_from(["mul", "mul", "swap", "dmix"]), st.integers(0, n - 1), st.integers(0, n - 1)),
            st.tuples(st.just("dsign"), st.integers(0, n - 1)),
        ).map(list), min_size=0, max_size=max_rowops))
    return {"n": n, "word": word, "rowops": rowops}


@st.composite
def st_sparse_state(draw, min_n=5, max_n=9, max_rowops=6):
    """few H/CNOT gates on many qubits: product-like states with idle |0>/|+> qubits (the region where pivot
    bookkeeping of echelon-form algorithms goes wrong)"""
    n = draw(st.integers(min_n, max_n))
    word = draw(st.lists(
        st.one_of(
            st.tuples(st.sampled_from(["H", "H", "P"]), st.integers(0, n - 1)),
            st.tuples(st.just("CNOT"), st.integers(0, n - 1), st.integers(0, n - 1)),
        ).map(list), min_size=2, max_size=n + 3))
    rowops = draw(st.lists(
        st.tuples(st.sampled_from(["mul", "swap"]), st.integers(0, n - 1), st.integers(0, n - 1)).map(list),
        min_size=0, max_size=max_rowops))
    return {"n": n, "word": word, "rowops": rowops}


# ------------------------------------------------------------------------------------- exhaustive enumerators
def all_states(n):
    """one Clifford word per n-qubit stabilizer state (6, 60, 1080 for n = 1, 2, 3), BFS in the reference"""
    start = rp.PauliSim(n)
    seen = {rp.group_key(start.stab, n): []}
    todo = [(start, [])]
    gens = [[g, q] for g in ("H", "P") for q in range(n)] + [["CNOT", a, b] for a in range(n) for b in range(n) if a != b]
    while todo:
        s, w = todo.pop(0)
        for g in gens:
            t = s.copy()
            if g[0] == "CNOT":
                t.cnot(g[1], g[2])
            else:
                t.gate1(g[0], g[1])
            k = rp.group_key(t.stab, n)
            if k not in seen:
                seen[k] = w + [g]
                todo.append((t, w + [g]))
    return list(seen.values())


def all_invertible(n):
    out = []
    for rows in itertools.product(range(1, 2**n), repeat=n):
        if rp.gf2_rank(list(rows)) == n:
            out.append(list(rows))
    return out
