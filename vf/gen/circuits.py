"""Circuit case descriptors, Hypothesis strategies for them, the builder into graphiq objects and the
reference executor.

descriptor: {"ne": int, "np": int, "nc": int, "ops": [op, ...]}
op (plain lists):
    [g, t, r]                         g in ONE = I H P Pdag X Y Z ; t in 'e'/'p' ; r register index
    ["W", t, r, [g1, g2, ...]]        OneQubitGateWrapper (list order; last listed acts first)
    ["CNOT"|"CZ", ct, c, tt, t]
    ["CCNOT"|"CCZ"|"MCR", ct, c, tt, t, creg]    classical-controlled X / Z, measure-CNOT-and-reset
    ["MZ", t, r, creg]
"""
from hypothesis import strategies as st

from ..ref import statevec as sv

ONE = ["I", "H", "P", "Pdag", "X", "Y", "Z"]
TWO = ["CNOT", "CZ"]
CC = ["CCNOT", "CCZ", "MCR"]


def cls_map():
    import graphiq.circuit.ops as ops

    return {
        "I": ops.Identity, "H": ops.Hadamard, "P": ops.Phase, "Pdag": ops.PhaseDagger, "X": ops.SigmaX,
        "Y": ops.SigmaY, "Z": ops.SigmaZ, "CNOT": ops.CNOT, "CZ": ops.CZ, "CCNOT": ops.ClassicalCNOT,
        "CCZ": ops.ClassicalCZ, "MCR": ops.MeasurementCNOTandReset, "MZ": ops.MeasurementZ,
        "W": ops.OneQubitGateWrapper,
    }


def name_of(op):
    """graphiq op object -> descriptor-style tuple (used to read the compiler's reported sequence)"""
    n = type(op).__name__
    back = {
        "Identity": "I", "Hadamard": "H", "Phase": "P", "PhaseDagger": "Pdag", "SigmaX": "X", "SigmaY": "Y",
        "SigmaZ": "Z", "CNOT": "CNOT", "CZ": "CZ", "ClassicalCNOT": "CCNOT", "ClassicalCZ": "CCZ",
        "MeasurementCNOTandReset": "MCR", "MeasurementZ": "MZ", "OneQubitGateWrapper": "W",
    }
    if n in ("Input", "Output"):
        return None
    g = back[n]
    if g in ONE:
        return [g, op.reg_type, op.register]
    if g == "W":
        return ["W", op.reg_type, op.register, [back[c.__name__] for c in op.operations]]
    if g in TWO:
        return [g, op.control_type, op.control, op.target_type, op.target]
    if g in CC:
        return [g, op.control_type, op.control, op.target_type, op.target, op.c_register]
    if g == "MZ":
        return [g, op.reg_type, op.register, op.c_register]
    raise ValueError(n)


def make_op(d, noise=None):
    m = cls_map()
    g = d[0]
    kw = {} if noise is None else {"noise": noise}
    if g in ONE:
        return m[g](register=d[2], reg_type=d[1], **kw)
    if g == "W":
        return m["W"]([m[x] for x in d[3]], register=d[2], reg_type=d[1], **kw)
    if g in TWO:
        return m[g](control=d[2], control_type=d[1], target=d[4], target_type=d[3], **kw)
    if g in CC:
        return m[g](control=d[2], control_type=d[1], target=d[4], target_type=d[3], c_register=d[5], **kw)
    if g == "MZ":
        return m[g](register=d[2], reg_type=d[1], c_register=d[3], **kw)
    raise ValueError(g)


def build(desc, noises=None, return_ops=False):
    """build with circuit.add in program order"""
    from graphiq.circuit.circuit_dag import CircuitDAG

    c = CircuitDAG(n_emitter=desc["ne"], n_photon=desc["np"], n_classical=desc["nc"])
    objs = []
    for i, d in enumerate(desc["ops"]):
        op = make_op(d, None if noises is None else noises[i])
        objs.append(op)
        c.add(op)
    if return_ops:
        return c, objs
    return c


def qregs(d):
    g = d[0]
    if g in ONE or g == "W" or g == "MZ":
        return [(d[1], d[2])]
    return [(d[1], d[2]), (d[3], d[4])]


def cregs(d):
    g = d[0]
    if g in CC:
        return [d[5]]
    if g == "MZ":
        return [d[3]]
    return []


def expand(ops):
    """wrappers expanded in execution order (last listed acts first), identities kept"""
    out = []
    for d in ops:
        if d[0] == "W":
            for g in reversed(d[3]):
                out.append([g, d[1], d[2]])
        else:
            out.append(d)
    return out


def wires(desc, expanded=True):
    """model: per-register operation lists {('e',0): [op,...], ('c',0): [...]}"""
    ops = expand(desc["ops"]) if expanded else desc["ops"]
    w = {}
    for t, n in (("e", desc["ne"]), ("p", desc["np"]), ("c", desc["nc"])):
        for r in range(n):
            w[(t, r)] = []
    for d in ops:
        for q in qregs(d):
            w[q].append(d)
        for c in cregs(d):
            w[("c", c)].append(d)
    return w


def qindex(desc, t, r):
    return r if t == "p" else desc["np"] + r


class RefRun:
    """textbook execution of an (expanded) operation sequence on the dense simulator"""

    def __init__(self, desc, vec=None):
        self.desc = desc
        self.n = desc["ne"] + desc["np"]
        self.v = sv.zero_state(self.n) if vec is None else vec.copy()
        self.creg = [0] * desc["nc"]
        self.n_random = 0
        self.n_det1 = 0

    def q(self, t, r):
        return qindex(self.desc, t, r)

    def step(self, d, setting, outcome=None):
        """setting in {0,1} forces; setting 'follow' takes `outcome`.  Returns (outcome or None, prob)"""
        g = d[0]
        n = self.n
        if g in ONE:
            self.v = sv.apply1(self.v, n, self.q(d[1], d[2]), sv.GATES[g])
            return None, 1.0
        if g == "CNOT":
            self.v = sv.cnot(self.v, n, self.q(d[1], d[2]), self.q(d[3], d[4]))
            return None, 1.0
        if g == "CZ":
            self.v = sv.cz(self.v, n, self.q(d[1], d[2]), self.q(d[3], d[4]))
            return None, 1.0
        mq = self.q(d[1], d[2])
        rnd = sv.is_random(self.v, n, mq)
        if setting == "follow":
            o = int(outcome)
        else:
            o = sv.forced_outcome(self.v, n, mq, setting)
        self.v, p = sv.project(self.v, n, mq, o)
        if rnd:
            self.n_random += 1
        elif o == 1:
            self.n_det1 += 1
        if g == "MZ":
            self.creg[d[3]] = o
            return o, p
        tq = self.q(d[3], d[4])
        if o == 1:
            self.v = sv.apply1(self.v, n, tq, sv.GATES["Z" if g == "CCZ" else "X"])
        if g == "MCR" and o == 1:
            self.v = sv.apply1(self.v, n, mq, sv.GATES["X"])
        self.creg[d[5]] = o
        return o, p


def measuring(d):
    return d[0] in CC or d[0] == "MZ"


# ------------------------------------------------------------------------------------ strategies
def st_reg(ne, np_):
    regs = [("e", i) for i in range(ne)] + [("p", i) for i in range(np_)]
    return st.sampled_from(regs)


@st.composite
def st_op(draw, ne, np_, nc, profile="generic", allow_measure=True):
    regs = [("e", i) for i in range(ne)] + [("p", i) for i in range(np_)]
    kinds = ["one", "one", "h", "wrap"]
    if len(regs) >= 2:
        kinds += ["two", "two", "two"]
    if allow_measure and nc > 0:
        kinds += ["mz"]
        if len(regs) >= 2:
            kinds += ["cc", "cc"]
    k = draw(st.sampled_from(kinds))
    if k == "h":
        t, r = draw(st.sampled_from(regs))
        return ["H", t, r]
    if k == "one":
        t, r = draw(st.sampled_from(regs))
        return [draw(st.sampled_from(ONE)), t, r]
    if k == "wrap":
        t, r = draw(st.sampled_from(regs))
        return ["W", t, r, draw(st.lists(st.sampled_from(ONE), min_size=1, max_size=4))]
    if k == "mz":
        t, r = draw(st.sampled_from(regs))
        return ["MZ", t, r, draw(st.integers(0, nc - 1))]
    a = draw(st.integers(0, len(regs) - 1))
    b = draw(st.integers(0, len(regs) - 2))
    if b >= a:
        b += 1
    (ct, c), (tt, t) = regs[a], regs[b]
    if k == "two":
        return [draw(st.sampled_from(TWO)), ct, c, tt, t]
    return [draw(st.sampled_from(CC)), ct, c, tt, t, draw(st.integers(0, nc - 1))]


@st.composite
def st_circuit(draw, max_q=5, max_len=40, max_c=3, min_q=1, allow_measure=True):
    nq = draw(st.integers(min_q, max_q))
    ne = draw(st.integers(0, nq))
    np_ = nq - ne
    nc = draw(st.integers(0 if not allow_measure else 0, max_c)) if allow_measure else 0
    lo = draw(st.sampled_from([0, 2, 5, 10]))
    ops = draw(st.lists(st_op(ne, np_, nc, allow_measure=allow_measure), min_size=min(lo, max_len), max_size=max_len))
    return {"ne": ne, "np": np_, "nc": nc, "ops": ops}


def classes_of(desc):
    cl = []
    ops = desc["ops"]
    if any(d[0] in TWO for d in ops):
        cl.append("entangling")
    if any(measuring(d) for d in ops):
        cl.append("measuring")
    if any(d[0] == "W" and len(d[3]) >= 2 for d in ops):
        cl.append("wrapper_len>=2")
    if desc["ne"] and desc["np"]:
        cl.append("emitter+photon")
    # gate after a measure-and-reset on the same register
    seen = set()
    for d in ops:
        for q in qregs(d):
            if q in seen:
                cl.append("op_after_mcr_on_register")
                seen.discard(q)
        if d[0] == "MCR":
            seen.add((d[1], d[2]))
    cr = [c for d in ops for c in cregs(d)]
    if len(cr) != len(set(cr)):
        cl.append("creg_reused")
    return cl
