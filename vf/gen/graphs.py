"""Graph case descriptors: {"n": n, "mask": int, "labels": [..] (optional)}; position i = i-th inserted node."""
import random

from hypothesis import strategies as st

from ..ref import graphs as rg


def classes(n, mask):
    cl = []
    if n and rg.connected(n, mask):
        cl.append("connected")
    else:
        cl.append("disconnected")
    if rg.has_isolated(n, mask):
        cl.append("isolated_vertex")
    e = bin(mask).count("1")
    if e == n * (n - 1) // 2 and n > 1:
        cl.append("complete")
    if e == n - 1 and "connected" in cl and n > 2:
        cl.append("tree")
    return cl


@st.composite
def st_graph(draw, min_n=1, max_n=6, connected=None, no_isolated=False, labels=False):
    n = draw(st.integers(min_n, max_n))
    kind = draw(st.sampled_from(["random", "random", "sparse", "dense", "tree", "named", "union"]))
    if kind == "union" and n < 4:
        kind = "random"
    np_ = n * (n - 1) // 2
    if kind == "random":
        mask = draw(st.integers(0, (1 << np_) - 1)) if np_ else 0
    elif kind == "sparse":
        ks = draw(st.lists(st.integers(0, max(np_ - 1, 0)), max_size=n))
        mask = 0
        for k in ks:
            if np_:
                mask |= 1 << k
    elif kind == "dense":
        ks = draw(st.lists(st.integers(0, max(np_ - 1, 0)), max_size=n))
        mask = (1 << np_) - 1
        for k in ks:
            if np_:
                mask &= ~(1 << k)
    elif kind == "tree":
        mask = 0
        for v in range(1, n):
            u = draw(st.integers(0, v - 1))
            mask |= 1 << rg.pairs(n).index((u, v))
    elif kind == "union":
        # disjoint union of two connected graphs (components of size >= 2)
        k = draw(st.integers(2, n - 2))
        P = rg.pairs(n)
        mask = 0
        for lo, hi in ((0, k), (k, n)):
            for v in range(lo + 1, hi):
                u = draw(st.integers(lo, v - 1))
                mask |= 1 << P.index((u, v))
            extra = draw(st.lists(st.tuples(st.integers(lo, hi - 1), st.integers(lo, hi - 1)), max_size=3))
            for a, b in extra:
                if a != b:
                    mask |= 1 << P.index((min(a, b), max(a, b)))
        perm = draw(st.permutations(list(range(n))))
        mask = rg.relabel(n, mask, perm)
    else:
        name = draw(st.sampled_from(["path", "ring", "star", "complete", "empty"]))
        mask = named(n, name)
    if (connected is True or no_isolated) and n >= 2:
        # repair by construction: attach every offending vertex / component to an earlier vertex
        mask = connect(n, mask, draw, only_isolated=(connected is not True))
    d = {"n": n, "mask": mask}
    if labels:
        lab = draw(st.one_of(st.none(), st.permutations(list(range(n))), st.permutations([3 * i + 2 for i in range(n)])))
        if lab is not None:
            d["labels"] = list(lab)
    return d


@st.composite
def st_lobes(draw, min_n=7, max_n=11, labels=False):
    """chain of small connected 'lobes' (2-4 vertices, contiguous in the emission order) joined by single bridges:
    non-monotone height profiles, i.e. emitters that are measured, reset and re-used"""
    n = draw(st.integers(min_n, max_n))
    P = rg.pairs(n)
    mask = 0
    lo = 0
    prev = None
    while lo < n:
        size = min(n - lo, draw(st.integers(2, 4)))
        if n - (lo + size) == 1:
            size += 1
        hi = lo + size
        for v in range(lo + 1, hi):
            u = draw(st.integers(lo, v - 1))
            mask |= 1 << P.index((u, v))
        extra = draw(st.lists(st.tuples(st.integers(lo, hi - 1), st.integers(lo, hi - 1)), max_size=3))
        for a, b in extra:
            if a != b:
                mask |= 1 << P.index((min(a, b), max(a, b)))
        if prev is not None:
            a = draw(st.integers(prev[0], prev[1] - 1))
            b = draw(st.integers(lo, hi - 1))
            mask |= 1 << P.index((a, b))
        prev = (lo, hi)
        lo = hi
    # a few transpositions of neighbouring vertices perturb the emission order
    for _ in range(draw(st.integers(0, 2))):
        i = draw(st.integers(0, n - 2))
        perm = list(range(n))
        perm[i], perm[i + 1] = perm[i + 1], perm[i]
        mask = rg.relabel(n, mask, perm)
    d = {"n": n, "mask": mask}
    if labels:
        lab = draw(st.one_of(st.none(), st.permutations(list(range(n)))))
        if lab is not None:
            d["labels"] = list(lab)
    return d


def connect(n, mask, draw, only_isolated=False):
    P = rg.pairs(n)
    if only_isolated:
        nb = rg.nbr_sets(n, mask)
        for v in range(n):
            if nb[v] == 0:
                u = draw(st.integers(0, n - 2))
                if u >= v:
                    u += 1
                a, b = min(u, v), max(u, v)
                mask |= 1 << P.index((a, b))
                nb = rg.nbr_sets(n, mask)
        return mask
    while not rg.connected(n, mask):
        nb = rg.nbr_sets(n, mask)
        seen = 1
        todo = [0]
        while todo:
            v = todo.pop()
            new = nb[v] & ~seen
            seen |= new
            todo += [u for u in range(n) if (new >> u) & 1]
        out = [v for v in range(n) if not (seen >> v) & 1]
        ins = [v for v in range(n) if (seen >> v) & 1]
        v = out[0]
        u = ins[draw(st.integers(0, len(ins) - 1))]
        mask |= 1 << P.index((min(u, v), max(u, v)))
    return mask


def named(n, name):
    P = rg.pairs(n)
    m = 0
    if name == "path":
        for i in range(n - 1):
            m |= 1 << P.index((i, i + 1))
    elif name == "ring":
        for i in range(n - 1):
            m |= 1 << P.index((i, i + 1))
        if n > 2:
            m |= 1 << P.index((0, n - 1))
    elif name == "star":
        for i in range(1, n):
            m |= 1 << P.index((0, i))
    elif name == "complete":
        m = (1 << len(P)) - 1
    return m


def to_nx(d):
    return rg.to_nx(d["n"], d["mask"], d.get("labels"))


def all_graphs(n_max, connected=None, no_isolated=False):
    out = []
    for n in range(1, n_max + 1):
        for m in range(rg.n_masks(n)):
            if connected is True and not rg.connected(n, m):
                continue
            if no_isolated and rg.has_isolated(n, m):
                continue
            out.append({"n": n, "mask": m})
    return out
